//! Case generators (table / random / adversarial). Every random choice comes from the one Rng.
use crate::model::*;
use vh_common::*;

fn ts() -> TickScript {
    TickScript::default()
}
fn step(e: Ev) -> (Ev, TickScript) {
    (e, ts())
}
fn spec(i: usize, c: u64) -> Spec {
    Spec { i, c, side: (c % 2) as u8, price: 1000 + 10 * c as i64, qty: 50, kind: 1, tif: 0, strat: 0 }
}
fn open(oid: u64, t: i64, filled: i64) -> OSt {
    OSt::Open(MetaIn { oid, t, filled })
}
fn key(i: usize, c: u64) -> Key {
    Key { i, c }
}
fn input(mode: u8, pre: Vec<(Ev, TickScript)>, feed: Vec<(Ev, TickScript)>) -> Input {
    Input { mode, s_init: 0, trading0: false, link: 0, hook: false, pre, feed, perturb: Perturb::None }
}

// ---------------------------------------------------------------------------------------------
// table A: every (engine, replica) state pair of one order x every order-relevant event
// ---------------------------------------------------------------------------------------------
fn table_orders(em: &mut Emitter) {
    let s = spec(0, 1);
    let k = key(0, 1);
    let m0 = || open(1, 100, 10);
    let setups: Vec<(&str, Vec<Ev>, Vec<Ev>)> = vec![
        ("none_none", vec![], vec![]),
        ("oif_none", vec![], vec![Ev::CmdOpens(vec![s.clone()])]),
        ("oif_oif", vec![Ev::CmdOpens(vec![s.clone()])], vec![]),
        ("open_open", vec![Ev::Order(s.clone(), m0())], vec![]),
        ("cifnone_none", vec![], vec![Ev::CmdOpens(vec![s.clone()]), Ev::CmdCancels(vec![k.clone()])]),
        ("cifnone_oif", vec![Ev::CmdOpens(vec![s.clone()])], vec![Ev::CmdCancels(vec![k.clone()])]),
        ("cifnone_cifnone", vec![Ev::CmdOpens(vec![s.clone()]), Ev::CmdCancels(vec![k.clone()])], vec![]),
        ("cifsome_open", vec![Ev::Order(s.clone(), m0())], vec![Ev::CmdCancels(vec![k.clone()])]),
        ("cifsome_cifsome", vec![Ev::Order(s.clone(), m0()), Ev::CmdCancels(vec![k.clone()])], vec![]),
        ("open_after_oif", vec![], vec![Ev::CmdOpens(vec![s.clone()]), Ev::Order(s.clone(), m0())]),
    ];
    let fresh = spec(0, 2);
    let ops: Vec<(&str, (Ev, TickScript))> = vec![
        ("open_newer_partial", step(Ev::Order(s.clone(), open(1, 200, 20)))),
        ("open_equal_t", step(Ev::Order(s.clone(), open(1, 100, 30)))),
        ("open_older", step(Ev::Order(s.clone(), open(1, 50, 5)))),
        ("open_newer_full", step(Ev::Order(s.clone(), open(1, 200, 50)))),
        ("open_older_full", step(Ev::Order(s.clone(), open(1, 50, 50)))),
        ("cancelled", step(Ev::Order(s.clone(), OSt::Cancelled(210)))),
        ("filled", step(Ev::Order(s.clone(), OSt::Filled))),
        ("expired", step(Ev::Order(s.clone(), OSt::Expired))),
        ("failed", step(Ev::Order(s.clone(), OSt::Failed))),
        ("cancel_ok", step(Ev::CancelResp { key: k.clone(), ok: true, t: 220 })),
        ("cancel_err", step(Ev::CancelResp { key: k.clone(), ok: false, t: 220 })),
        ("cmd_cancel", step(Ev::CmdCancels(vec![k.clone()]))),
        ("cmd_cancel_all", step(Ev::CmdCancelOrders(None))),
        ("cmd_cancel_instr0", step(Ev::CmdCancelOrders(Some(vec![0])))),
        ("cmd_cancel_instr1", step(Ev::CmdCancelOrders(Some(vec![1])))),
        ("cmd_open_fresh", step(Ev::CmdOpens(vec![fresh.clone()]))),
        ("cmd_close", (Ev::CmdClose(None), TickScript { co: vec![fresh.clone()], cc: vec![k.clone()], ..ts() })),
        ("trade", step(Ev::Trade { i: 0, side: 0, price: 1000, qty: 10, fee: 1, t: 230, n: 1 })),
        ("balance", step(Ev::Balance(BalIn { asset: 1, total: 5000, free: 4000, t: 230 }))),
        ("market", step(Ev::MktTrade { i: 0, price: 401, t: 230 })),
        ("algo", (Ev::Trading(true), TickScript { ac: vec![k.clone()], ao: vec![fresh.clone()], ..ts() })),
        ("account_snapshot", step(Ev::Snapshot {
            ex: 0,
            balances: vec![BalIn { asset: 0, total: 70, free: 60, t: 240 }],
            orders: vec![(s.clone(), open(1, 200, 20)), (spec(1, 9), open(9, 200, 0))],
        })),
    ];
    for (sname, pre, post) in &setups {
        for (oname, op) in &ops {
            let mut feed: Vec<(Ev, TickScript)> = post.iter().cloned().map(step).collect();
            feed.push(op.clone());
            feed.push(step(Ev::Order(s.clone(), open(1, 300, 25))));
            feed.push(step(Ev::CancelResp { key: k.clone(), ok: false, t: 310 }));
            let inp = input(0, pre.iter().cloned().map(step).collect(), feed);
            let mut c = run_case(&inp, "table");
            c.tags.push(format!("pair_{sname}"));
            c.tags.push(format!("op_{oname}"));
            em.emit(c);
        }
    }
}

// ---------------------------------------------------------------------------------------------
// table B: every event kind x trading x strategy behaviour x runner
// ---------------------------------------------------------------------------------------------
fn all_event_kinds() -> Vec<Ev> {
    let s = spec(0, 1);
    vec![
        Ev::Shutdown,
        Ev::CmdCancels(vec![key(0, 1), key(1, 5)]),
        Ev::CmdOpens(vec![spec(1, 20)]),
        Ev::CmdOpens(vec![spec(1, 21), spec(2, 22)]),
        Ev::CmdClose(Some(vec![0])),
        Ev::CmdCancelOrders(None),
        Ev::CmdCancelOrders(Some(vec![2])),
        Ev::Trading(true),
        Ev::Trading(false),
        Ev::AccReconn(0),
        Ev::MktReconn(1),
        Ev::Balance(BalIn { asset: 2, total: 900, free: 800, t: 50 }),
        Ev::Order(s.clone(), open(1, 60, 10)),
        Ev::Order(spec(2, 7), open(7, 60, 0)),
        Ev::CancelResp { key: key(1, 5), ok: true, t: 60 },
        Ev::Trade { i: 1, side: 0, price: 2000, qty: 10, fee: 2, t: 60, n: 3 },
        Ev::Snapshot { ex: 1, balances: vec![BalIn { asset: 4, total: 100, free: 100, t: 60 }], orders: vec![(spec(2, 8), open(8, 61, 5))] },
        Ev::MktTrade { i: 1, price: 808, t: 60 },
        Ev::MktL1 { i: 0, bid: 39900, ask: 40100, t: 60 },
    ]
}

fn table_events(em: &mut Emitter) {
    let pre = vec![
        step(Ev::CmdOpens(vec![spec(0, 1)])),
        step(Ev::Order(spec(1, 5), open(5, 10, 0))),
        step(Ev::Trade { i: 1, side: 0, price: 2000, qty: 10, fee: 1, t: 11, n: 1 }),
        step(Ev::MktTrade { i: 1, price: 800, t: 12 }),
    ];
    for (n, ev) in all_event_kinds().into_iter().enumerate() {
        for trading0 in [false, true] {
            for strat in 0..3u8 {
                for mode in 0..3u8 {
                    let script = match strat {
                        0 => ts(),
                        1 => TickScript { ao: vec![spec(0, 30)], ac: vec![key(1, 5)], co: vec![spec(1, 31)], ..ts() },
                        _ => TickScript { ao: vec![spec(2, 32), spec(0, 33)], co: vec![spec(2, 34)], ..ts() },
                    };
                    let hooks: &[bool] = if matches!(ev, Ev::Trading(false) | Ev::AccReconn(_) | Ev::MktReconn(_)) && strat == 0 {
                        &[false, true]
                    } else {
                        &[false]
                    };
                    for hook in hooks {
                        let mut inp = input(
                            mode,
                            pre.clone(),
                            vec![
                                (ev.clone(), script.clone()),
                                step(Ev::MktTrade { i: 0, price: 404, t: 70 }),
                                step(Ev::Shutdown),
                                step(Ev::MktTrade { i: 0, price: 408, t: 80 }),
                            ],
                        );
                        inp.trading0 = trading0;
                        inp.hook = *hook;
                        inp.link = if strat == 2 { 1 + (n as u8 + mode) % 2 } else { 0 };
                        inp.s_init = [0, 3, 41][(n + mode as usize) % 3];
                        em.emit(run_case(&inp, "table"));
                    }
                }
            }
        }
    }
}

// ---------------------------------------------------------------------------------------------
// table C: one tick deleted / duplicated / swapped / replayed, at every position
// ---------------------------------------------------------------------------------------------
fn table_perturb(em: &mut Emitter) {
    let s = spec(0, 1);
    let base: Vec<(Ev, TickScript)> = vec![
        step(Ev::MktTrade { i: 0, price: 400, t: 1 }),
        step(Ev::CmdOpens(vec![s.clone()])),
        step(Ev::Order(s.clone(), open(1, 5, 10))),
        step(Ev::Trade { i: 0, side: 0, price: 1000, qty: 10, fee: 1, t: 6, n: 1 }),
        step(Ev::Trading(true)),
        step(Ev::Balance(BalIn { asset: 1, total: 77, free: 66, t: 7 })),
        step(Ev::Shutdown),
    ];
    // process_with_audit on a stream without a terminal record: run() reads the replayed part too
    let open_ended: Vec<(Ev, TickScript)> = base[..base.len() - 1].to_vec();
    for i in 0..open_ended.len() {
        for p in [Perturb::Delete(i), Perturb::Dup(i), Perturb::Replay(i), Perturb::Window(i, 2), Perturb::Window(i, 3), Perturb::Window(0, i + 1)] {
            let mut inp = input(0, vec![], open_ended.clone());
            inp.s_init = 4;
            inp.perturb = p;
            em.emit(run_case(&inp, "table"));
        }
    }
    for mode in 0..3u8 {
        for i in 0..=base.len() {
            for p in [Perturb::Delete(i), Perturb::Dup(i), Perturb::Swap(i), Perturb::Replay(i), Perturb::Window(i, 2), Perturb::Window(i, 4)] {
                let mut inp = input(mode, vec![], base.clone());
                inp.s_init = 9;
                inp.perturb = p;
                em.emit(run_case(&inp, "table"));
            }
        }
    }
}

// ---------------------------------------------------------------------------------------------
// random histories
// ---------------------------------------------------------------------------------------------
struct Sh {
    rng: Rng,
    next_c: u64,
    next_n: u64,
    t: i64,
    specs: Vec<Spec>,
    issuing: bool,
    adversarial: bool,
}

impl Sh {
    fn new(rng: Rng, issuing: bool, adversarial: bool) -> Sh {
        Sh { rng, next_c: 1, next_n: 1, t: 1000, specs: vec![], issuing, adversarial }
    }
    fn fresh(&mut self, strat: u8) -> Spec {
        let c = self.next_c;
        self.next_c += 1;
        let s = Spec {
            i: self.rng.below(N_INSTR as u64) as usize,
            c,
            side: self.rng.below(2) as u8,
            price: self.rng.range(900, 1100),
            qty: *self.rng.pick(&[10, 25, 50, 100]),
            kind: self.rng.below(2) as u8,
            tif: self.rng.below(4) as u8,
            strat,
        };
        self.specs.push(s.clone());
        s
    }
    fn open_spec(&mut self) -> Spec {
        if self.adversarial && !self.specs.is_empty() && self.rng.chance(1, 4) {
            // duplicate client order id (outside the input requirement)
            let mut s = self.rng.pick(&self.specs).clone();
            if self.rng.chance(1, 2) {
                s.price += 1;
            }
            s
        } else {
            self.fresh(0)
        }
    }
    fn known_key(&mut self) -> Key {
        if self.specs.is_empty() || self.rng.chance(1, 10) {
            key(self.rng.below(N_INSTR as u64) as usize, 900 + self.rng.below(3))
        } else {
            self.rng.pick(&self.specs).key()
        }
    }
    fn time(&mut self) -> i64 {
        match self.rng.below(20) {
            0..=13 => {
                self.t += self.rng.range(1, 50);
                self.t
            }
            14..=16 => self.t,
            _ => self.t - self.rng.range(1, 100),
        }
    }
    fn order_state(&mut self, s: &Spec) -> OSt {
        let r = self.rng.below(100);
        let meta = |sh: &mut Sh| {
            let filled = match sh.rng.below(11) {
                0..=2 => 0,
                3..=5 => s.qty / 5,
                6..=8 => s.qty / 2,
                _ => s.qty,
            };
            MetaIn { oid: 1000 + s.c, t: sh.time(), filled }
        };
        if self.adversarial && r < 8 {
            return if r < 3 {
                OSt::Oif
            } else if r < 5 {
                OSt::Cif(None)
            } else {
                OSt::Cif(Some(meta(self)))
            };
        }
        match r {
            0..=69 => OSt::Open(meta(self)),
            70..=79 => OSt::Cancelled(self.time()),
            80..=89 => OSt::Filled,
            90..=94 => OSt::Expired,
            _ => OSt::Failed,
        }
    }
    fn report(&mut self) -> (Spec, OSt) {
        let mut s = if !self.specs.is_empty() && self.rng.chance(17, 20) {
            self.rng.pick(&self.specs).clone()
        } else {
            self.fresh(1)
        };
        let st = self.order_state(&s);
        if self.adversarial && self.rng.chance(1, 6) {
            // a report that does not echo the request (outside the input requirement)
            if self.rng.chance(1, 2) {
                s.qty += 10;
            } else {
                s.price += 5;
            }
        }
        (s, st)
    }
    fn balance(&mut self) -> BalIn {
        let total = self.rng.range(0, 100_000);
        BalIn { asset: self.rng.below(5) as usize, total, free: total - self.rng.range(0, total.max(1)) , t: self.time() }
    }
    fn filter(&mut self) -> Option<Vec<usize>> {
        match self.rng.below(4) {
            0 | 1 => None,
            2 => Some(vec![self.rng.below(N_INSTR as u64) as usize]),
            _ => Some(vec![0, 2]),
        }
    }
    fn script(&mut self, close: bool) -> TickScript {
        let mut s = ts();
        if self.issuing && self.rng.chance(7, 20) {
            for _ in 0..self.rng.below(3) {
                let o = self.open_spec();
                s.ao.push(o);
            }
            for _ in 0..self.rng.below(3) {
                let k = self.known_key();
                if !s.ac.contains(&k) {
                    s.ac.push(k);
                }
            }
        }
        if close {
            for _ in 0..self.rng.below(3) {
                let o = self.open_spec();
                s.co.push(o);
            }
            if self.rng.chance(1, 3) {
                s.cc.push(self.known_key());
            }
        }
        s
    }
    fn event(&mut self) -> (Ev, TickScript) {
        let w = self.rng.below(105);
        let ev = match w {
            0..=14 => Ev::MktTrade { i: self.rng.below(N_INSTR as u64) as usize, price: self.rng.range(3600, 4400), t: self.time() },
            15..=20 => {
                let bid = self.rng.range(90_000, 110_000);
                Ev::MktL1 { i: self.rng.below(N_INSTR as u64) as usize, bid, ask: bid + self.rng.range(1, 500), t: self.time() }
            }
            21..=26 => Ev::Balance(self.balance()),
            27..=46 => {
                let (s, st) = self.report();
                Ev::Order(s, st)
            }
            47..=54 => Ev::CancelResp { key: self.known_key(), ok: self.rng.chance(1, 2), t: self.time() },
            55..=64 => {
                self.next_n += 1;
                Ev::Trade {
                    i: self.rng.below(N_INSTR as u64) as usize,
                    side: self.rng.below(2) as u8,
                    price: self.rng.range(900, 1100),
                    qty: *self.rng.pick(&[5, 10, 10, 20]),
                    fee: self.rng.range(0, 5),
                    t: self.time(),
                    n: self.next_n,
                }
            }
            65..=67 => {
                let nb = self.rng.below(3);
                let no = self.rng.below(4);
                Ev::Snapshot {
                    ex: self.rng.below(2) as usize,
                    balances: (0..nb).map(|_| self.balance()).collect(),
                    orders: (0..no).map(|_| self.report()).collect(),
                }
            }
            68..=75 => Ev::Trading(self.rng.chance(3, 5)),
            76..=78 => Ev::AccReconn(self.rng.below(2) as usize),
            79..=81 => Ev::MktReconn(self.rng.below(2) as usize),
            82..=85 => {
                let n = 1 + self.rng.below(2);
                let mut ks: Vec<Key> = vec![];
                for _ in 0..n {
                    let k = self.known_key();
                    if !ks.contains(&k) {
                        ks.push(k);
                    }
                }
                Ev::CmdCancels(ks)
            }
            86..=91 => {
                let n = 1 + self.rng.below(2);
                Ev::CmdOpens((0..n).map(|_| self.open_spec()).collect())
            }
            92..=95 => Ev::CmdClose(self.filter()),
            96..=99 => Ev::CmdCancelOrders(self.filter()),
            100 => Ev::Shutdown,
            _ => Ev::MktTrade { i: 0, price: self.rng.range(3600, 4400), t: self.time() },
        };
        let close = matches!(ev, Ev::CmdClose(_));
        let sc = self.script(close);
        (ev, sc)
    }
}

fn random_case(rng: &mut Rng, max_len: u64, adversarial: bool) -> Input {
    let issuing = rng.chance(2, 3);
    let mut sh = Sh::new(rng.fork(), issuing, adversarial);
    let n_pre = rng.below(7);
    let n_feed = 1 + rng.below(max_len);
    let pre: Vec<(Ev, TickScript)> = (0..n_pre)
        .map(|_| loop {
            let e = sh.event();
            if e.0 != Ev::Shutdown {
                break e;
            }
        })
        .collect();
    let mut feed: Vec<(Ev, TickScript)> = (0..n_feed).map(|_| sh.event()).collect();
    if rng.chance(3, 5) {
        feed.push(step(Ev::Shutdown));
    }
    let n = feed.len() + 1;
    let perturb = if rng.chance(1, 4) {
        let i = rng.below(n as u64 + 1) as usize;
        match rng.below(6) {
            4 | 5 => Perturb::Window(i, 2 + rng.below(4) as usize),
            0 => Perturb::Delete(i),
            1 => Perturb::Dup(i),
            2 => Perturb::Swap(i),
            _ => Perturb::Replay(i),
        }
    } else {
        Perturb::None
    };
    Input {
        mode: rng.below(3) as u8,
        s_init: *rng.pick(&[0, 0, 1, 7, 1000, 4_294_967_295, 4_294_967_296]),
        trading0: rng.chance(1, 2),
        link: *rng.pick(&[0, 0, 0, 1, 2]),
        hook: rng.chance(3, 10),
        pre,
        feed,
        perturb,
    }
}

fn handcrafted_adversarial(em: &mut Emitter) {
    let s = spec(0, 1);
    for mode in 0..3u8 {
        // empty feed; shutdown only; events after shutdown; huge sequence
        em.emit(run_case(&input(mode, vec![], vec![]), "adversarial"));
        em.emit(run_case(&input(mode, vec![], vec![step(Ev::Shutdown)]), "adversarial"));
        let mut i3 = input(
            mode,
            vec![step(Ev::CmdOpens(vec![s.clone()]))],
            vec![step(Ev::Shutdown), step(Ev::Order(s.clone(), open(1, 5, 0))), step(Ev::Shutdown)],
        );
        i3.s_init = 1u64 << 62;
        em.emit(run_case(&i3, "adversarial"));
        // fatal on the first event: command to the broken link, trading disabled / enabled
        for link in 1..3u8 {
            for trading0 in [false, true] {
                let mut i4 = input(
                    mode,
                    vec![],
                    vec![
                        step(Ev::CmdOpens(vec![spec(2, 4), spec(0, 5)])),
                        step(Ev::MktTrade { i: 0, price: 400, t: 3 }),
                    ],
                );
                i4.link = link;
                i4.trading0 = trading0;
                em.emit(run_case(&i4, "adversarial"));
                // fatal inside algo generation: the sent part is still recorded in flight
                let mut i5 = input(
                    mode,
                    vec![],
                    vec![
                        (Ev::MktTrade { i: 0, price: 400, t: 3 }, TickScript { ao: vec![spec(0, 6), spec(2, 7)], ..ts() }),
                        step(Ev::MktTrade { i: 0, price: 404, t: 4 }),
                    ],
                );
                i5.link = link;
                i5.trading0 = trading0;
                em.emit(run_case(&i5, "adversarial"));
            }
        }
        // duplicate client id: the engine overwrites a confirmed order by OpenInFlight
        em.emit(run_case(
            &input(
                mode,
                vec![],
                vec![
                    step(Ev::Order(s.clone(), open(1, 5, 10))),
                    step(Ev::CmdOpens(vec![s.clone()])),
                    step(Ev::Order(s.clone(), open(1, 6, 20))),
                ],
            ),
            "adversarial",
        ));
        // a report that does not echo the request
        let mut s2 = s.clone();
        s2.qty = 70;
        em.emit(run_case(
            &input(mode, vec![], vec![step(Ev::CmdOpens(vec![s.clone()])), step(Ev::Order(s2, open(1, 6, 20)))]),
            "adversarial",
        ));
        // in-flight states inside exchange reports
        em.emit(run_case(
            &input(
                mode,
                vec![],
                vec![
                    step(Ev::Order(s.clone(), OSt::Oif)),
                    step(Ev::Order(spec(1, 2), OSt::Cif(Some(MetaIn { oid: 2, t: 9, filled: 0 })))),
                    step(Ev::Order(s.clone(), OSt::Cif(None))),
                    step(Ev::Order(s.clone(), open(1, 12, 20))),
                ],
            ),
            "adversarial",
        ));
    }
}

pub fn generate(seed: u64, tier: &str, em: &mut Emitter) {
    let thorough = tier == "thorough";
    let mut rng = Rng::new(seed);
    table_orders(em);
    table_events(em);
    table_perturb(em);
    handcrafted_adversarial(em);
    let (n_random, n_adv, max_len) = if thorough { (2500, 600, 80) } else { (230, 70, 28) };
    for _ in 0..n_random {
        let inp = random_case(&mut rng, max_len, false);
        em.emit(run_case(&inp, "random"));
    }
    for _ in 0..n_adv {
        let inp = random_case(&mut rng, max_len, true);
        em.emit(run_case(&inp, "adversarial"));
    }
}
