//! C14 correspondence harness: drives the real `Engine::process` with market / account items and
//! disconnect notices over 1-4 exchanges, with a counting `OnDisconnectStrategy`, and prints the
//! whole `ConnectivityStates` + audit output + on_disconnect invocations after every event as Coq
//! terms (Corr/C14.v).
use barter::{
    EngineEvent,
    engine::{
        Engine, EngineOutput, Processor,
        audit::EngineAudit,
        clock::HistoricalClock,
        execution_tx::MultiExchangeTxMap,
        state::{
            EngineState,
            connectivity::{ConnectivityStates, Health},
            global::DefaultGlobalData,
            instrument::{data::DefaultInstrumentMarketData, filter::InstrumentFilter},
            trading::TradingState,
        },
    },
    execution::{AccountStreamEvent, request::ExecutionRequest},
    risk::DefaultRiskManager,
    strategy::{
        algo::AlgoStrategy, close_positions::ClosePositionsStrategy,
        on_disconnect::OnDisconnectStrategy, on_trading_disabled::OnTradingDisabled,
    },
};
use barter_data::{
    books::{Level, OrderBook},
    event::{DataKind, MarketEvent},
    streams::consumer::MarketStreamEvent,
    subscription::{
        book::{OrderBookEvent, OrderBookL1},
        candle::Candle,
        liquidation::Liquidation,
        trade::PublicTrade,
    },
};
use barter_execution::{
    AccountEvent, AccountEventKind, AccountSnapshot, InstrumentAccountSnapshot,
    balance::{AssetBalance, Balance},
    error::{ApiError, ConnectivityError, OrderError},
    order::{
        Order, OrderKey, OrderKind, TimeInForce,
        id::{ClientOrderId, OrderId, StrategyId},
        request::{OrderRequestCancel, OrderRequestOpen, OrderResponseCancel},
        state::{CancelInFlight, Cancelled, Open, OpenInFlight, OrderState},
    },
    trade::{AssetFees, Trade, TradeId},
};
use barter_instrument::{
    Side, Underlying,
    asset::AssetIndex,
    exchange::{ExchangeId, ExchangeIndex},
    index::IndexedInstruments,
    instrument::{Instrument, InstrumentIndex},
};
use barter_integration::{
    channel::{UnboundedTx, mpsc_unbounded},
    collection::none_one_or_many::NoneOneOrMany,
    snapshot::Snapshot,
};
use chrono::{DateTime, Duration, Utc};
use rust_decimal::Decimal;
use serde_json::{Value, json};
use std::panic::AssertUnwindSafe;
use vh_common::*;

/// The exchanges a case may use (position in this table = "pool index" of the JSON input).
const POOL: [ExchangeId; 12] = [
    ExchangeId::Kraken,
    ExchangeId::BinanceSpot,
    ExchangeId::Okx,
    ExchangeId::Coinbase,
    ExchangeId::Bitfinex,
    ExchangeId::GateioSpot,
    ExchangeId::BybitSpot,
    ExchangeId::Mock,
    // non-live ids and ids whose enum order differs from their name order
    ExchangeId::Simulated,
    ExchangeId::Other,
    ExchangeId::Bitvavo,
    ExchangeId::Bithumb,
];

/// Number an ExchangeId for Coq. Scrambled so that index order (ExchangeId's derived Ord) is not
/// the numeric order of the codes.
fn code(e: ExchangeId) -> u128 {
    ((e as u128 + 1) * 17) % 43
}

type State = EngineState<DefaultGlobalData, DefaultInstrumentMarketData>;
type Txs = MultiExchangeTxMap<UnboundedTx<ExecutionRequest>>;
type Risk = DefaultRiskManager<State>;
type Eng = Engine<HistoricalClock, State, Txs, Counting, Risk>;

/// Strategy that issues no orders and logs every on_disconnect invocation.
struct Counting {
    calls: Vec<ExchangeId>,
}

#[derive(Debug, Clone, PartialEq)]
struct DiscOut {
    exchange: ExchangeId,
    call_no: usize,
}

impl AlgoStrategy for Counting {
    type State = State;
    fn generate_algo_orders(
        &self,
        _: &Self::State,
    ) -> (
        impl IntoIterator<Item = OrderRequestCancel<ExchangeIndex, InstrumentIndex>>,
        impl IntoIterator<Item = OrderRequestOpen<ExchangeIndex, InstrumentIndex>>,
    ) {
        (std::iter::empty(), std::iter::empty())
    }
}

impl ClosePositionsStrategy for Counting {
    type State = State;
    fn close_positions_requests<'a>(
        &'a self,
        _: &'a Self::State,
        _: &'a InstrumentFilter<ExchangeIndex, AssetIndex, InstrumentIndex>,
    ) -> (
        impl IntoIterator<Item = OrderRequestCancel<ExchangeIndex, InstrumentIndex>> + 'a,
        impl IntoIterator<Item = OrderRequestOpen<ExchangeIndex, InstrumentIndex>> + 'a,
    )
    where
        ExchangeIndex: 'a,
        AssetIndex: 'a,
        InstrumentIndex: 'a,
    {
        (std::iter::empty(), std::iter::empty())
    }
}

impl OnDisconnectStrategy<HistoricalClock, State, Txs, Risk> for Counting {
    type OnDisconnect = DiscOut;
    fn on_disconnect(engine: &mut Eng, exchange: ExchangeId) -> Self::OnDisconnect {
        engine.strategy.calls.push(exchange);
        DiscOut {
            exchange,
            call_no: engine.strategy.calls.len(),
        }
    }
}

impl OnTradingDisabled<HistoricalClock, State, Txs, Risk> for Counting {
    type OnTradingDisabled = ();
    fn on_trading_disabled(_: &mut Eng) -> Self::OnTradingDisabled {}
}

fn t0() -> DateTime<Utc> {
    DateTime::<Utc>::from_timestamp(1_700_000_000, 0).unwrap()
}

/// One input event. `x` = pool index of the exchange (market item, notices) or the
/// ExchangeIndex (account item); `akind` picks the AccountEventKind of an account item.
#[derive(Clone, Debug)]
struct Ev {
    k: &'static str, // "mi" | "ai" | "mr" | "ar"
    x: usize,
    akind: u64,
    /// after this event: persist the engine's ConnectivityStates with serde_json, restore it,
    /// and continue on the restored value
    rt: bool,
}

#[derive(Clone, Debug)]
struct Input {
    exchanges: Vec<usize>,       // pool indices, any order, duplicates allowed (builder dedups)
    instr_per_ex: Vec<usize>,    // 1..=2 instruments for each entry of `exchanges`
    trading: bool,               // TradingState::Enabled ?
    start: Option<(bool, Vec<(bool, bool)>)>, // overwrite connectivity (true = Healthy), index order
    events: Vec<Ev>,
}

fn kind_static(s: &str) -> &'static str {
    match s {
        "mi" => "mi",
        "ai" => "ai",
        "mr" => "mr",
        "ar" => "ar",
        o => panic!("unknown event kind {o}"),
    }
}

impl Input {
    fn to_json(&self) -> Value {
        json!({
            "exchanges": self.exchanges,
            "instr_per_ex": self.instr_per_ex,
            "trading": self.trading,
            "start": self.start.as_ref().map(|(g, ls)| json!({"global": g, "links": ls.iter().map(|(m, a)| json!([m, a])).collect::<Vec<_>>()})),
            "events": self.events.iter().map(|e| json!({"k": e.k, "x": e.x, "akind": e.akind, "rt": e.rt})).collect::<Vec<_>>(),
        })
    }
    fn from_json(v: &Value) -> Input {
        let us = |x: &Value| x.as_u64().unwrap() as usize;
        let exchanges: Vec<usize> = v["exchanges"].as_array().unwrap().iter().map(us).collect();
        let mut instr_per_ex: Vec<usize> = v["instr_per_ex"]
            .as_array()
            .map(|a| a.iter().map(us).collect())
            .unwrap_or_default();
        instr_per_ex.resize(exchanges.len(), 1);
        Input {
            exchanges,
            instr_per_ex,
            trading: v["trading"].as_bool().unwrap_or(false),
            start: if v["start"].is_null() {
                None
            } else {
                Some((
                    v["start"]["global"].as_bool().unwrap(),
                    v["start"]["links"]
                        .as_array()
                        .unwrap()
                        .iter()
                        .map(|p| (p.get(0).and_then(|b| b.as_bool()).unwrap_or(false), p.get(1).and_then(|b| b.as_bool()).unwrap_or(false)))
                        .collect(),
                ))
            },
            events: v["events"]
                .as_array()
                .unwrap()
                .iter()
                .map(|e| Ev {
                    k: kind_static(e["k"].as_str().unwrap()),
                    x: us(&e["x"]),
                    akind: e["akind"].as_u64().unwrap_or(0),
                    rt: e["rt"].as_bool().unwrap_or(false),
                })
                .collect(),
        }
    }
}

fn build_engine(inp: &Input) -> (Eng, IndexedInstruments) {
    let mut b = IndexedInstruments::builder();
    for (j, &p) in inp.exchanges.iter().enumerate() {
        let ex = POOL[p % POOL.len()];
        for i in 0..inp.instr_per_ex[j].clamp(1, 2) {
            let (base, quote) = if i == 0 { ("btc", "usdt") } else { ("eth", "btc") };
            b = b.add_instrument(Instrument::spot(
                ex,
                format!("{}_{}_{}", ex.as_str(), base, quote),
                format!("{}{}", base, quote).to_uppercase(),
                Underlying::new(base, quote),
                None,
            ));
        }
    }
    let instruments = b.build();
    let state: State = EngineState::builder(
        &instruments,
        DefaultGlobalData,
        DefaultInstrumentMarketData::default,
    )
    .time_engine_start(t0())
    .trading_state(if inp.trading {
        TradingState::Enabled
    } else {
        TradingState::Disabled
    })
    .build();
    // one transmitter per tracked exchange; receivers dropped (nothing is ever sent)
    let txs: Txs = instruments
        .exchanges()
        .iter()
        .map(|e| {
            let (tx, _rx) = mpsc_unbounded::<ExecutionRequest>();
            (e.value, Some(tx))
        })
        .collect();
    let engine = Engine::new(
        HistoricalClock::new(t0()),
        state,
        txs,
        Counting { calls: vec![] },
        DefaultRiskManager::default(),
    );
    (engine, instruments)
}

fn health(h: Health) -> &'static str {
    match h {
        Health::Healthy => "Healthy",
        Health::Reconnecting => "Reconnecting",
    }
}
fn of_bool(b: bool) -> Health {
    if b { Health::Healthy } else { Health::Reconnecting }
}

fn coq_event(e: &Ev) -> String {
    match e.k {
        "mi" => format!("(MarketItem {})", n(code(POOL[e.x % POOL.len()]))),
        "ai" => format!("(AccountItem {})", n(e.x as u128)),
        "mr" => format!("(MarketReconnecting {})", n(code(POOL[e.x % POOL.len()]))),
        _ => format!("(AccountReconnecting {})", n(code(POOL[e.x % POOL.len()]))),
    }
}

/// Names of the account item kinds (index = `akind` of an "ai" event).
const ACCOUNT_KINDS: [&str; 26] = [
    "snapshot_empty",
    "balance_snapshot",
    "snapshot_balances_and_orders",
    "order_open_in_flight",
    "order_open_partial",
    "order_open_unfilled",
    "order_cancel_in_flight",
    "order_cancelled",
    "order_fully_filled",
    "order_expired",
    "order_open_failed_conn_timeout",
    "order_open_failed_conn_offline",
    "order_open_failed_conn_socket",
    "order_open_failed_rate_limit",
    "order_open_failed_balance_insufficient",
    "order_open_failed_instrument_invalid",
    "order_open_failed_rejected",
    "cancel_ok",
    "cancel_err_conn_timeout",
    "cancel_err_conn_offline",
    "cancel_err_conn_socket",
    "cancel_err_already_cancelled",
    "cancel_err_already_filled",
    "cancel_err_rate_limit",
    "trade_buy",
    "trade_sell",
];
/// Names of the market item kinds (index = `akind` of an "mi" event).
const MARKET_KINDS: [&str; 10] = [
    "public_trade",
    "l1_two_sided",
    "l1_bid_only",
    "l1_ask_only",
    "l1_empty",
    "l2_snapshot",
    "l2_update",
    "l2_snapshot_empty",
    "candle",
    "liquidation",
];

/// numeric tag of the item kind carried in the Coq case: 0 = notice, 1 + k = k-th market item
/// kind, 100 + k = k-th account item kind
fn item_kind_code(e: &Ev) -> u128 {
    match e.k {
        "ai" => 100 + (e.akind as u128) % ACCOUNT_KINDS.len() as u128,
        "mi" => 1 + (e.akind as u128) % MARKET_KINDS.len() as u128,
        _ => 0,
    }
}

fn kind_name(e: &Ev) -> &'static str {
    match e.k {
        "ai" => ACCOUNT_KINDS[(e.akind as usize) % ACCOUNT_KINDS.len()],
        "mi" => MARKET_KINDS[(e.akind as usize) % MARKET_KINDS.len()],
        _ => "notice",
    }
}

fn lvl(p: i64, a: i64) -> Level {
    Level::new(Decimal::new(p, 0), Decimal::new(a, 0))
}

fn market_kind(k: u64, step: usize, time: DateTime<Utc>) -> DataKind {
    let px = 100 + (step % 7) as i64;
    match (k as usize) % MARKET_KINDS.len() {
        0 => DataKind::Trade(PublicTrade {
            id: step.to_string(),
            price: px as f64,
            amount: 1.0,
            side: if step % 2 == 0 { Side::Buy } else { Side::Sell },
        }),
        1 => DataKind::OrderBookL1(OrderBookL1 {
            last_update_time: time,
            best_bid: Some(lvl(px - 1, 2)),
            best_ask: Some(lvl(px + 1, 3)),
        }),
        2 => DataKind::OrderBookL1(OrderBookL1 { last_update_time: time, best_bid: Some(lvl(px - 1, 2)), best_ask: None }),
        3 => DataKind::OrderBookL1(OrderBookL1 { last_update_time: time, best_bid: None, best_ask: Some(lvl(px + 1, 3)) }),
        4 => DataKind::OrderBookL1(OrderBookL1 { last_update_time: time, best_bid: None, best_ask: None }),
        5 => DataKind::OrderBook(OrderBookEvent::Snapshot(OrderBook::new(
            step as u64,
            Some(time),
            vec![lvl(px - 1, 2), lvl(px - 2, 5)],
            vec![lvl(px + 1, 3)],
        ))),
        6 => DataKind::OrderBook(OrderBookEvent::Update(OrderBook::new(
            step as u64,
            None,
            vec![lvl(px - 1, 0)],
            vec![lvl(px + 2, 4)],
        ))),
        7 => DataKind::OrderBook(OrderBookEvent::Snapshot(OrderBook::new(
            step as u64,
            Some(time),
            Vec::<Level>::new(),
            Vec::<Level>::new(),
        ))),
        8 => DataKind::Candle(Candle {
            close_time: time,
            open: px as f64,
            high: px as f64 + 2.0,
            low: px as f64 - 2.0,
            close: px as f64 + 1.0,
            volume: 12.5,
            trade_count: 7,
        }),
        _ => DataKind::Liquidation(Liquidation { side: Side::Sell, price: px as f64, quantity: 0.5, time }),
    }
}

/// the account item of kind `k` for exchange index `x`, naming an instrument / asset of that
/// exchange (instrument 0 / asset 0 when the index is out of range)
fn account_kind(
    k: u64,
    x: usize,
    step: usize,
    time: DateTime<Utc>,
    instruments: &IndexedInstruments,
) -> AccountEventKind<ExchangeIndex, AssetIndex, InstrumentIndex> {
    let exchange_id = instruments.exchanges().get(x).map(|e| e.value);
    let own_instr: Vec<InstrumentIndex> = instruments
        .instruments()
        .iter()
        .filter(|i| Some(i.value.exchange.value) == exchange_id)
        .map(|i| i.key)
        .collect();
    let own_assets: Vec<AssetIndex> = instruments
        .assets()
        .iter()
        .filter(|a| Some(a.value.exchange) == exchange_id)
        .map(|a| a.key)
        .collect();
    let instrument = own_instr.get(step % own_instr.len().max(1)).copied().unwrap_or(InstrumentIndex(0));
    let asset = own_assets.get(step % own_assets.len().max(1)).copied().unwrap_or(AssetIndex(0));
    let key = |tag: &str| OrderKey {
        exchange: ExchangeIndex(x),
        instrument,
        strategy: StrategyId::new("c14"),
        cid: ClientOrderId::new(format!("{tag}{}", step % 3)),
    };
    let order = |tag: &str, state: OrderState<AssetIndex, InstrumentIndex>| Order {
        key: key(tag),
        side: if step % 2 == 0 { Side::Buy } else { Side::Sell },
        price: Decimal::new(100 + (step % 7) as i64, 0),
        quantity: Decimal::new(4, 0),
        kind: if step % 3 == 0 { OrderKind::Market } else { OrderKind::Limit },
        time_in_force: TimeInForce::GoodUntilCancelled { post_only: false },
        state,
    };
    let open = |filled: i64| Open {
        id: OrderId::new(format!("oid{}", step % 3)),
        time_exchange: time,
        filled_quantity: Decimal::new(filled, 0),
    };
    let exch = exchange_id.unwrap_or(ExchangeId::Other);
    let snap = |o| AccountEventKind::OrderSnapshot(Snapshot(o));
    let failed = |e: OrderError<AssetIndex, InstrumentIndex>| OrderState::inactive(e);
    let cancel = |state| AccountEventKind::OrderCancelled(OrderResponseCancel { key: key("o"), state });
    let trade = |side: Side| {
        AccountEventKind::Trade(Trade {
            id: TradeId::new(format!("t{step}")),
            order_id: OrderId::new(format!("oid{}", step % 3)),
            instrument,
            strategy: StrategyId::new("c14"),
            time_exchange: time,
            side,
            price: Decimal::new(100 + (step % 7) as i64, 0),
            quantity: Decimal::new(1 + (step % 2) as i64, 0),
            fees: AssetFees::quote_fees(Decimal::new(1, 1)),
        })
    };
    match (k as usize) % ACCOUNT_KINDS.len() {
        0 => AccountEventKind::Snapshot(AccountSnapshot { exchange: ExchangeIndex(x), balances: vec![], instruments: vec![] }),
        1 => AccountEventKind::BalanceSnapshot(Snapshot(AssetBalance {
            asset,
            balance: Balance::new(Decimal::new(100 + step as i64, 0), Decimal::new(50, 0)),
            time_exchange: time,
        })),
        2 => AccountEventKind::Snapshot(AccountSnapshot {
            exchange: ExchangeIndex(x),
            balances: own_assets
                .iter()
                .map(|a| AssetBalance {
                    asset: *a,
                    balance: Balance::new(Decimal::new(10 + step as i64, 0), Decimal::new(5, 0)),
                    time_exchange: time,
                })
                .collect(),
            instruments: own_instr
                .iter()
                .map(|i| InstrumentAccountSnapshot {
                    instrument: *i,
                    orders: vec![
                        Order { key: OrderKey { instrument: *i, ..key("s") }, ..order("s", OrderState::active(open(1))) },
                        Order { key: OrderKey { instrument: *i, ..key("z") }, ..order("z", OrderState::fully_filled()) },
                    ],
                })
                .collect(),
        }),
        3 => snap(order("o", OrderState::active(OpenInFlight))),
        4 => snap(order("o", OrderState::active(open(1)))),
        5 => snap(order("o", OrderState::active(open(0)))),
        6 => snap(order("o", OrderState::active(CancelInFlight { order: Some(open(1)) }))),
        7 => snap(order("o", OrderState::inactive(Cancelled { id: OrderId::new(format!("oid{}", step % 3)), time_exchange: time }))),
        8 => snap(order("o", OrderState::fully_filled())),
        9 => snap(order("o", OrderState::expired())),
        10 => snap(order("o", failed(OrderError::Connectivity(ConnectivityError::Timeout)))),
        11 => snap(order("o", failed(OrderError::Connectivity(ConnectivityError::ExchangeOffline(exch))))),
        12 => snap(order("o", failed(OrderError::Connectivity(ConnectivityError::Socket("c14".to_string()))))),
        13 => snap(order("o", failed(OrderError::Rejected(ApiError::RateLimit)))),
        14 => snap(order("o", failed(OrderError::Rejected(ApiError::BalanceInsufficient(asset, "c14".to_string()))))),
        15 => snap(order("o", failed(OrderError::Rejected(ApiError::InstrumentInvalid(instrument, "c14".to_string()))))),
        16 => snap(order("o", failed(OrderError::Rejected(ApiError::OrderRejected("c14".to_string()))))),
        17 => cancel(Ok(Cancelled { id: OrderId::new(format!("oid{}", step % 3)), time_exchange: time })),
        18 => cancel(Err(OrderError::Connectivity(ConnectivityError::Timeout))),
        19 => cancel(Err(OrderError::Connectivity(ConnectivityError::ExchangeOffline(exch)))),
        20 => cancel(Err(OrderError::Connectivity(ConnectivityError::Socket("c14".to_string())))),
        21 => cancel(Err(OrderError::Rejected(ApiError::OrderAlreadyCancelled))),
        22 => cancel(Err(OrderError::Rejected(ApiError::OrderAlreadyFullyFilled))),
        23 => cancel(Err(OrderError::Rejected(ApiError::RateLimit))),
        24 => trade(Side::Buy),
        _ => trade(Side::Sell),
    }
}

fn engine_event(e: &Ev, step: usize, instruments: &IndexedInstruments) -> EngineEvent<DataKind> {
    let time = t0() + Duration::seconds(step as i64 + 1);
    match e.k {
        "mi" => {
            let ex = POOL[e.x % POOL.len()];
            // an instrument of that exchange (instrument 0 if the exchange is not tracked)
            let own: Vec<InstrumentIndex> = instruments
                .instruments()
                .iter()
                .filter(|i| i.value.exchange.value == ex)
                .map(|i| i.key)
                .collect();
            let instrument = own.get(step % own.len().max(1)).copied().unwrap_or(InstrumentIndex(0));
            EngineEvent::Market(MarketStreamEvent::Item(MarketEvent {
                time_exchange: time,
                time_received: time,
                exchange: ex,
                instrument,
                kind: market_kind(e.akind, step, time),
            }))
        }
        "ai" => EngineEvent::Account(AccountStreamEvent::Item(AccountEvent {
            exchange: ExchangeIndex(e.x),
            kind: account_kind(e.akind, e.x, step, time, instruments),
        })),
        "mr" => EngineEvent::Market(MarketStreamEvent::Reconnecting(POOL[e.x % POOL.len()])),
        _ => EngineEvent::Account(AccountStreamEvent::Reconnecting(POOL[e.x % POOL.len()])),
    }
}

fn snapshot_state(engine: &Eng) -> (Health, Vec<(ExchangeId, Health, Health)>) {
    (
        engine.state.connectivity.global,
        engine
            .state
            .connectivity
            .exchanges
            .iter()
            .map(|(k, s)| (*k, s.market_data, s.account))
            .collect(),
    )
}

/// Harness-side classification of the arm an event takes, from the observed pre-state (evidence
/// only; the judgement is made in Coq).
fn branch_tag(
    e: &Ev,
    pre: &(Health, Vec<(ExchangeId, Health, Health)>),
    post: &(Health, Vec<(ExchangeId, Health, Health)>),
    panicked: bool,
) -> String {
    if panicked {
        return format!("{}:panic_unknown_exchange", e.k);
    }
    let known = match e.k {
        "ai" => e.x < pre.1.len(),
        _ => pre.1.iter().any(|(k, _, _)| *k == POOL[e.x % POOL.len()]),
    };
    match e.k {
        "mr" | "ar" => format!("{}:notice", e.k),
        _ => {
            if pre.0 == Health::Healthy {
                if known {
                    format!("{}:return_global_healthy", e.k)
                } else {
                    format!("{}:unknown_swallowed_global_healthy", e.k)
                }
            } else if pre.1 == post.1 {
                format!("{}:return_link_healthy", e.k)
            } else if post.0 == Health::Healthy {
                format!("{}:heal_link_and_global", e.k)
            } else {
                format!("{}:heal_link", e.k)
            }
        }
    }
}

fn run_case(inp: &Input) -> (String, Vec<String>, bool) {
    let (mut engine, instruments) = build_engine(inp);
    let ids: Vec<String> = instruments
        .exchanges()
        .iter()
        .map(|e| n(code(e.value)))
        .collect();
    if let Some((g, ls)) = &inp.start {
        engine.state.connectivity.global = of_bool(*g);
        for (i, (m, a)) in ls.iter().enumerate() {
            if let Some((_, st)) = engine.state.connectivity.exchanges.get_index_mut(i) {
                st.market_data = of_bool(*m);
                st.account = of_bool(*a);
            }
        }
    }
    let mut obs = vec![];
    let mut tags = vec![];
    let mut nontrivial = false;
    for (step, e) in inp.events.iter().enumerate() {
        let pre = snapshot_state(&engine);
        let calls_before = engine.strategy.calls.len();
        let ev = engine_event(e, step, &instruments);
        let res = catch(AssertUnwindSafe(|| engine.process(ev)));
        let post = snapshot_state(&engine);
        let out = match &res {
            Err(_) => "OutPanic".to_string(),
            Ok(EngineAudit::Process(p)) => match (&p.outputs, &p.errors) {
                (NoneOneOrMany::None, NoneOneOrMany::None) => "OutNone".to_string(),
                (NoneOneOrMany::One(EngineOutput::MarketDisconnect(d)), NoneOneOrMany::None)
                    if d.call_no == engine.strategy.calls.len() =>
                {
                    format!("(OutMarket {})", n(code(d.exchange)))
                }
                (NoneOneOrMany::One(EngineOutput::AccountDisconnect(d)), NoneOneOrMany::None)
                    if d.call_no == engine.strategy.calls.len() =>
                {
                    format!("(OutAccount {})", n(code(d.exchange)))
                }
                // a fill that closes a position: Engine::process reports the exited position
                (NoneOneOrMany::One(EngineOutput::PositionExit(_)), NoneOneOrMany::None) => {
                    "OutPositionExit".to_string()
                }
                _ => "OutOther".to_string(),
            },
            Ok(_) => "OutOther".to_string(),
        };
        let new_calls: Vec<String> = engine.strategy.calls[calls_before.min(engine.strategy.calls.len())..]
            .iter()
            .map(|x| n(code(*x)))
            .collect();
        if pre != post || !new_calls.is_empty() {
            nontrivial = true;
        }
        tags.push(branch_tag(e, &pre, &post, res.is_err()));
        if e.k == "ai" || e.k == "mi" {
            tags.push(format!("{}_kind:{}", e.k, kind_name(e)));
        }
        let rt = if e.rt {
            let orig = engine.state.connectivity.clone();
            let restored = catch(AssertUnwindSafe(|| {
                serde_json::to_string(&orig)
                    .ok()
                    .and_then(|txt| serde_json::from_str::<ConnectivityStates>(&txt).ok())
            }));
            let changed = match restored {
                Ok(Some(back)) => {
                    let changed = back != orig;
                    engine.state.connectivity = back;
                    changed
                }
                // a serde error or panic: nothing restored
                _ => true,
            };
            tags.push(if changed { "persist_restore:CHANGED" } else { "persist_restore:identity" }.to_string());
            let after = snapshot_state(&engine);
            format!(
                "(Some ({}, ({}, {})))",
                b(changed),
                health(after.0),
                list(
                    &after
                        .1
                        .iter()
                        .map(|(k, m, a)| pair(&n(code(*k)), &format!("(mkCS {} {})", health(*m), health(*a))))
                        .collect::<Vec<_>>()
                )
            )
        } else {
            "None".to_string()
        };
        obs.push(format!(
            "(mkObs {} {} {} {} {})",
            health(post.0),
            list(
                &post
                    .1
                    .iter()
                    .map(|(k, m, a)| pair(&n(code(*k)), &format!("(mkCS {} {})", health(*m), health(*a))))
                    .collect::<Vec<_>>()
            ),
            out,
            list(&new_calls),
            rt
        ));
    }
    let start = opt(inp.start.as_ref().map(|(g, ls)| {
        pair(
            health(of_bool(*g)),
            &list(
                &ls.iter()
                    .map(|(m, a)| format!("(mkCS {} {})", health(of_bool(*m)), health(of_bool(*a))))
                    .collect::<Vec<_>>(),
            ),
        )
    }));
    let coq = format!(
        "(mkCase {} {} {} {} {})",
        list(&ids),
        start,
        list(&inp.events.iter().map(coq_event).collect::<Vec<_>>()),
        list(&inp.events.iter().map(|e| n(item_kind_code(e))).collect::<Vec<_>>()),
        list(&obs)
    );
    (coq, tags, nontrivial)
}

fn emit(em: &mut Emitter, stream: &'static str, inp: &Input) {
    // panics of Engine::process are caught per event inside run_case; this outer guard only keeps
    // a malformed replay / shrink candidate (e.g. no exchange at all) from aborting the whole run
    let Ok((coq, tags, nontrivial)) = catch(AssertUnwindSafe(|| run_case(inp))) else {
        return;
    };
    em.emit(Case {
        stream,
        input: inp.to_json(),
        coq,
        nontrivial,
        tags,
    });
}

// ---- generators -----------------------------------------------------------------------------

/// Exhaustive single-step table: n exchanges (1 and 2) x every connectivity table (global flag x
/// every link Healthy/Reconnecting, including tables no history reaches) x every event kind x
/// every exchange.
fn table(em: &mut Emitter) {
    for n_ex in [1usize, 2] {
        let links = 2 * n_ex;
        for g in [false, true] {
            for mask in 0..(1u32 << links) {
                let ls: Vec<(bool, bool)> = (0..n_ex)
                    .map(|i| (mask & (1 << (2 * i)) != 0, mask & (1 << (2 * i + 1)) != 0))
                    .collect();
                for (k, kind) in item_kinds() {
                    for x in 0..n_ex {
                        // exchanges = pool 0 (Kraken) and 1 (BinanceSpot); index order is
                        // BinanceSpot, Kraken, so account index x and pool index x differ
                        let inp = Input {
                            exchanges: (0..n_ex).collect(),
                            instr_per_ex: vec![1; n_ex],
                            trading: false,
                            start: Some((g, ls.clone())),
                            events: vec![Ev { k, x, akind: kind, rt: (mask as usize + x + kind as usize) % 2 == 0 }],
                        };
                        emit(em, "table", &inp);
                    }
                }
            }
        }
    }
}

/// every event kind x every item kind
fn item_kinds() -> Vec<(&'static str, u64)> {
    let mut v = vec![("mr", 0), ("ar", 0)];
    v.extend((0..MARKET_KINDS.len() as u64).map(|k| ("mi", k)));
    v.extend((0..ACCOUNT_KINDS.len() as u64).map(|k| ("ai", k)));
    v
}

/// give every item of a generated history a random item kind
fn assign_kinds(r: &mut Rng, events: &mut [Ev]) {
    // persist / restore steps: none, sparse, or after every event
    let rt_pct = *r.pick(&[0u64, 10, 30, 100]);
    for e in events.iter_mut() {
        e.rt = r.chance(rt_pct, 100);
        match e.k {
            "mi" => e.akind = r.below(MARKET_KINDS.len() as u64),
            "ai" => e.akind = r.below(ACCOUNT_KINDS.len() as u64),
            _ => {}
        }
    }
}

fn gen_exchanges(r: &mut Rng) -> (Vec<usize>, Vec<usize>) {
    let n_ex = 1 + r.below(4) as usize;
    let mut pool: Vec<usize> = (0..POOL.len()).collect();
    r.shuffle(&mut pool);
    let ex: Vec<usize> = pool[..n_ex].to_vec();
    let per: Vec<usize> = (0..n_ex).map(|_| 1 + r.below(2) as usize).collect();
    (ex, per)
}

/// index (ExchangeIndex) of pool entry `p` among the chosen exchanges = rank by ExchangeId order
fn index_of(exchanges: &[usize], p: usize) -> usize {
    let mut ids: Vec<ExchangeId> = exchanges.iter().map(|&q| POOL[q]).collect();
    ids.sort();
    ids.dedup();
    ids.iter().position(|e| *e == POOL[p]).unwrap()
}

fn gen_random(r: &mut Rng, max_len: u64) -> Input {
    let (exchanges, instr_per_ex) = gen_exchanges(r);
    let len = 1 + r.below(max_len);
    let notice_pct = *r.pick(&[3u64, 10, 25, 40]);
    let mut events = vec![];
    while (events.len() as u64) < len {
        if r.chance(1, 12) {
            // a sweep: one item on every link, in random order (brings global to Healthy)
            let mut all: Vec<Ev> = vec![];
            for &p in &exchanges {
                all.push(Ev { k: "mi", x: p, akind: 0, rt: false });
                all.push(Ev { k: "ai", x: index_of(&exchanges, p), akind: r.below(2), rt: false });
            }
            r.shuffle(&mut all);
            events.extend(all);
            continue;
        }
        let p = *r.pick(&exchanges);
        let ev = if r.chance(notice_pct, 100) {
            if r.chance(1, 2) {
                Ev { k: "mr", x: p, akind: 0, rt: false }
            } else {
                Ev { k: "ar", x: p, akind: 0, rt: false }
            }
        } else if r.chance(1, 2) {
            Ev { k: "mi", x: p, akind: 0, rt: false }
        } else {
            Ev { k: "ai", x: index_of(&exchanges, p), akind: r.below(2), rt: false }
        };
        events.push(ev);
    }
    assign_kinds(r, &mut events);
    Input {
        exchanges,
        instr_per_ex,
        trading: r.chance(1, 3),
        start: None,
        events,
    }
}

fn gen_adversarial(r: &mut Rng, max_len: u64) -> Input {
    let (mut exchanges, mut instr_per_ex) = gen_exchanges(r);
    if r.chance(1, 2) {
        // exactly three exchanges, one of them Mock / Simulated / Other next to live ones
        let mut live: Vec<usize> = (0..7).collect();
        r.shuffle(&mut live);
        exchanges = vec![live[0], *r.pick(&[7usize, 8, 9]), live[1]];
        r.shuffle(&mut exchanges);
        instr_per_ex = vec![1 + r.below(2) as usize, 1 + r.below(2) as usize, 1 + r.below(2) as usize];
    }
    if r.chance(1, 4) {
        // the same exchange listed twice (the index builder dedups)
        let d = exchanges[0];
        exchanges.push(d);
        instr_per_ex.push(2);
    }
    let len = 1 + r.below(max_len);
    let mut events: Vec<Ev> = vec![];
    let style = r.below(5);
    while (events.len() as u64) < len {
        let p = *r.pick(&exchanges);
        let idx = index_of(&exchanges, p);
        match style {
            0 => {
                // duplicates: the same event two or three times in a row
                let e = match r.below(4) {
                    0 => Ev { k: "mi", x: p, akind: 0, rt: false },
                    1 => Ev { k: "ai", x: idx, akind: r.below(2), rt: false },
                    2 => Ev { k: "mr", x: p, akind: 0, rt: false },
                    _ => Ev { k: "ar", x: p, akind: 0, rt: false },
                };
                for _ in 0..(2 + r.below(2)) {
                    events.push(e.clone());
                }
            }
            1 => {
                // everything up, one link down, events on the *other* link of the same exchange
                // and on other exchanges, then the link's own event
                for &q in &exchanges {
                    events.push(Ev { k: "mi", x: q, akind: 0, rt: false });
                    events.push(Ev { k: "ai", x: index_of(&exchanges, q), akind: 1, rt: false });
                }
                let market = r.chance(1, 2);
                events.push(Ev { k: if market { "mr" } else { "ar" }, x: p, akind: 0, rt: false });
                for _ in 0..r.below(4) {
                    let q = *r.pick(&exchanges);
                    if market {
                        events.push(Ev { k: "ai", x: index_of(&exchanges, q), akind: 0, rt: false });
                    } else {
                        events.push(Ev { k: "mi", x: q, akind: 0, rt: false });
                    }
                }
                events.push(if market {
                    Ev { k: "mi", x: p, akind: 0, rt: false }
                } else {
                    Ev { k: "ai", x: idx, akind: 1, rt: false }
                });
            }
            2 => {
                // all down, then up in reverse order, market and account notices interleaved
                for &q in &exchanges {
                    events.push(Ev { k: "mr", x: q, akind: 0, rt: false });
                    events.push(Ev { k: "ar", x: q, akind: 0, rt: false });
                }
                for &q in exchanges.iter().rev() {
                    events.push(Ev { k: "ai", x: index_of(&exchanges, q), akind: 0, rt: false });
                    events.push(Ev { k: "mi", x: q, akind: 0, rt: false });
                }
            }
            3 => {
                // unknown exchange / out-of-range index somewhere after a valid prefix
                let unknown = (0..POOL.len()).find(|q| !exchanges.contains(q)).unwrap();
                let n_idx = {
                    let mut v = exchanges.clone();
                    v.sort();
                    v.dedup();
                    v.len()
                };
                if r.chance(1, 2) {
                    for &q in &exchanges {
                        events.push(Ev { k: "mi", x: q, akind: 0, rt: false });
                        events.push(Ev { k: "ai", x: index_of(&exchanges, q), akind: 0, rt: false });
                    }
                }
                for _ in 0..r.below(3) {
                    events.push(Ev { k: *r.pick(&["mi", "mr", "ar"]), x: p, akind: 0, rt: false });
                }
                events.push(match r.below(4) {
                    0 => Ev { k: "mi", x: unknown, akind: 0, rt: false },
                    1 => Ev { k: "ai", x: n_idx + r.below(2) as usize, akind: r.below(2), rt: false },
                    2 => Ev { k: "mr", x: unknown, akind: 0, rt: false },
                    _ => Ev { k: "ar", x: unknown, akind: 0, rt: false },
                });
                events.push(Ev { k: "mi", x: p, akind: 0, rt: false });
                events.push(Ev { k: "ai", x: idx, akind: 0, rt: false });
            }
            _ => {
                // notice for a link that is already reconnecting, item for one already healthy
                events.push(Ev { k: *r.pick(&["mr", "ar"]), x: p, akind: 0, rt: false });
                events.push(Ev { k: *r.pick(&["mi", "mr", "ar"]), x: p, akind: 0, rt: false });
                events.push(Ev { k: "ai", x: idx, akind: r.below(2), rt: false });
                events.push(Ev { k: "ai", x: idx, akind: r.below(2), rt: false });
                events.push(Ev { k: "mi", x: p, akind: 0, rt: false });
            }
        }
    }
    assign_kinds(r, &mut events);
    Input {
        exchanges,
        instr_per_ex,
        trading: r.chance(1, 3),
        start: None,
        events,
    }
}

fn main() {
    quiet_panics();
    let args = parse_args();
    let mut em = Emitter::create(&args.out);
    match args.mode.as_str() {
        "gen" => {
            let mut r = Rng::new(args.seed);
            let (n_rand, n_adv, max_len) = if args.tier == "thorough" {
                (4000, 2000, 120)
            } else {
                (350, 250, 30)
            };
            table(&mut em);
            for _ in 0..n_rand {
                let inp = gen_random(&mut r, max_len);
                emit(&mut em, "random", &inp);
            }
            for _ in 0..n_adv {
                let inp = gen_adversarial(&mut r, max_len / 2);
                emit(&mut em, "adversarial", &inp);
            }
        }
        "exec" => {
            for (inp, stream) in read_inputs(args.input.as_deref().expect("--in")) {
                emit(&mut em, stream_static(&stream), &Input::from_json(&inp));
            }
        }
        m => panic!("unknown mode {m}"),
    }
    em.finish();
}
