//! C15 correspondence harness: builds a real Engine (HistoricalClock, EngineState with
//! DefaultInstrumentMarketData, DefaultStrategy, trading disabled) over 2-3 instruments, feeds it
//! interleavings of market events (public trades, top-of-book updates, candles / liquidations)
//! and account trades through Engine::process, and reads back the routed instrument's
//! position.current, data.price(), data.l1 and data.last_traded_price after every event
//! (Corr/C15.v).
use barter::{
    EngineEvent,
    engine::{
        Engine, EngineOutput, Processor,
        audit::EngineAudit,
        clock::HistoricalClock,
        execution_tx::MultiExchangeTxMap,
        state::{
            EngineState,
            global::DefaultGlobalData,
            instrument::{
                InstrumentState,
                data::{DefaultInstrumentMarketData, InstrumentDataState},
            },
            position::{Position, PositionExited},
            trading::TradingState,
        },
    },
    execution::{AccountStreamEvent, request::ExecutionRequest},
    risk::DefaultRiskManager,
    strategy::DefaultStrategy,
};
use barter_data::{
    books::Level,
    event::{DataKind, MarketEvent},
    streams::consumer::MarketStreamEvent,
    subscription::{book::OrderBookL1, candle::Candle, liquidation::Liquidation, trade::PublicTrade},
};
use barter_execution::{
    AccountEvent, AccountEventKind,
    order::id::{OrderId, StrategyId},
    trade::{AssetFees, Trade, TradeId},
};
use barter_instrument::{
    Side, Underlying,
    asset::QuoteAsset,
    exchange::{ExchangeId, ExchangeIndex},
    index::IndexedInstruments,
    asset::Asset,
    instrument::{
        Instrument, InstrumentIndex,
        kind::{
            InstrumentKind,
            future::FutureContract,
            option::{OptionContract, OptionExercise, OptionKind},
            perpetual::PerpetualContract,
        },
        quote::InstrumentQuoteAsset,
    },
};
use barter_integration::channel::{UnboundedTx, mpsc_unbounded};
use chrono::{DateTime, TimeZone, Utc};
use rust_decimal::{Decimal, prelude::FromPrimitive};
use serde_json::{Value, json};
use vh_common::*;

type State = EngineState<DefaultGlobalData, DefaultInstrumentMarketData>;
type Eng = Engine<
    HistoricalClock,
    State,
    MultiExchangeTxMap<UnboundedTx<ExecutionRequest>>,
    DefaultStrategy<State>,
    DefaultRiskManager<State>,
>;

fn time_of(ms: i64) -> DateTime<Utc> {
    Utc.timestamp_millis_opt(ms).unwrap()
}

// ---- events ---------------------------------------------------------------------------------

#[derive(Clone, Debug)]
enum Ev {
    /// public trade: price as f64 = num / 4 (dyadic, converts exactly), or NaN
    Trade { inst: u64, time: i64, quarter: Option<i64> },
    /// top of book: (price, amount) decimals
    L1 { inst: u64, time: i64, lt: i64, bid: Option<(Decimal, Decimal)>, ask: Option<(Decimal, Decimal)> },
    /// candle (kind 0) or liquidation (kind 1)
    Other { inst: u64, time: i64, kind: u64 },
    Fill { id: u64, inst: u64, time: i64, buy: bool, price: Decimal, qty: Decimal, fee: Decimal },
}

fn lvl_json(l: &Option<(Decimal, Decimal)>) -> Value {
    match l {
        Some((p, a)) => json!([p.to_string(), a.to_string()]),
        None => Value::Null,
    }
}
fn lvl_from(v: &Value) -> Option<(Decimal, Decimal)> {
    match v.as_array() {
        Some(a) if a.len() == 2 => Some((json_dec(&a[0]), json_dec(&a[1]))),
        _ => None,
    }
}

impl Ev {
    fn inst(&self) -> u64 {
        match self {
            Ev::Trade { inst, .. } | Ev::L1 { inst, .. } | Ev::Other { inst, .. } | Ev::Fill { inst, .. } => *inst,
        }
    }
    fn to_json(&self) -> Value {
        match self {
            Ev::Trade { inst, time, quarter } => json!({"k": "trade", "inst": inst, "time": time, "quarter": quarter}),
            Ev::L1 { inst, time, lt, bid, ask } => {
                json!({"k": "l1", "inst": inst, "time": time, "lt": lt, "bid": lvl_json(bid), "ask": lvl_json(ask)})
            }
            Ev::Other { inst, time, kind } => json!({"k": "other", "inst": inst, "time": time, "kind": kind}),
            Ev::Fill { id, inst, time, buy, price, qty, fee } => json!({"k": "fill", "id": id, "inst": inst, "time": time,
                "side": if *buy { "buy" } else { "sell" }, "price": price.to_string(), "qty": qty.to_string(), "fee": fee.to_string()}),
        }
    }
    fn from_json(v: &Value) -> Ev {
        let inst = v["inst"].as_u64().unwrap();
        let time = v["time"].as_i64().unwrap();
        match v["k"].as_str().unwrap() {
            "trade" => Ev::Trade { inst, time, quarter: v["quarter"].as_i64() },
            "l1" => Ev::L1 { inst, time, lt: v["lt"].as_i64().unwrap(), bid: lvl_from(&v["bid"]), ask: lvl_from(&v["ask"]) },
            "other" => Ev::Other { inst, time, kind: v["kind"].as_u64().unwrap() },
            "fill" => Ev::Fill {
                id: v["id"].as_u64().unwrap(),
                inst,
                time,
                buy: v["side"] == "buy",
                price: json_dec(&v["price"]),
                qty: json_dec(&v["qty"]),
                fee: json_dec(&v["fee"]),
            },
            k => panic!("unknown event kind {k}"),
        }
    }
    fn trade_price_f64(quarter: Option<i64>) -> f64 {
        match quarter {
            Some(q) => q as f64 / 4.0,
            None => f64::NAN,
        }
    }
    /// `rd`: MarketEvent.time_received - time_exchange (ms) of a market event
    fn engine_event(&self, exch: &[(ExchangeId, ExchangeIndex)], rd: i64) -> EngineEvent<DataKind> {
        let market = |inst: u64, time: i64, kind: DataKind| {
            EngineEvent::Market(MarketStreamEvent::Item(MarketEvent {
                time_exchange: time_of(time),
                time_received: time_of(time + rd),
                exchange: exch[inst as usize].0,
                instrument: InstrumentIndex(inst as usize),
                kind,
            }))
        };
        match self {
            Ev::Trade { inst, time, quarter } => market(
                *inst,
                *time,
                DataKind::Trade(PublicTrade {
                    id: time.to_string(),
                    price: Ev::trade_price_f64(*quarter),
                    amount: 1.0,
                    side: Side::Buy,
                }),
            ),
            Ev::L1 { inst, time, lt, bid, ask } => market(
                *inst,
                *time,
                DataKind::OrderBookL1(OrderBookL1 {
                    last_update_time: time_of(*lt),
                    best_bid: bid.map(|(p, a)| Level::new(p, a)),
                    best_ask: ask.map(|(p, a)| Level::new(p, a)),
                }),
            ),
            Ev::Other { inst, time, kind } => market(
                *inst,
                *time,
                if *kind == 0 {
                    DataKind::Candle(Candle {
                        close_time: time_of(*time),
                        open: 1.0,
                        high: 5000.0,
                        low: 0.5,
                        close: 4000.0,
                        volume: 3.0,
                        trade_count: 7,
                    })
                } else {
                    DataKind::Liquidation(Liquidation { side: Side::Sell, price: 7777.0, quantity: 2.0, time: time_of(*time) })
                },
            ),
            Ev::Fill { id, inst, time, buy, price, qty, fee } => {
                EngineEvent::Account(AccountStreamEvent::Item(AccountEvent {
                    exchange: exch[*inst as usize].1,
                    kind: AccountEventKind::Trade(Trade {
                        id: TradeId::new(format!("t{id}")),
                        order_id: OrderId::new(format!("o{id}")),
                        instrument: InstrumentIndex(*inst as usize),
                        strategy: StrategyId::new("s"),
                        time_exchange: time_of(*time),
                        side: if *buy { Side::Buy } else { Side::Sell },
                        price: *price,
                        quantity: *qty,
                        fees: AssetFees::quote_fees(*fee),
                    }),
                }))
            }
        }
    }
    fn coq_lvl(l: &Option<(Decimal, Decimal)>) -> String {
        opt(l.map(|(p, a)| pair(&dec_q(p), &dec_q(a))))
    }
    fn coq(&self, rd: i64) -> String {
        match self {
            Ev::Trade { inst, time, quarter } => {
                // the conversion the code applies, done by the same library function
                let p = Decimal::from_f64(Ev::trade_price_f64(*quarter));
                format!("(OMarket {} {} (OMTrade {} {}))", n(*inst as u128), z((*time + rd) as i128), z(*time as i128), opt(p.map(dec_q)))
            }
            Ev::L1 { inst, time, lt, bid, ask } => format!(
                "(OMarket {} {} (OML1 {} {} {} {}))",
                n(*inst as u128),
                z((*time + rd) as i128),
                z(*time as i128),
                z(*lt as i128),
                Ev::coq_lvl(bid),
                Ev::coq_lvl(ask)
            ),
            Ev::Other { inst, time, .. } => format!("(OMarket {} {} (OMOther {}))", n(*inst as u128), z((*time + rd) as i128), z(*time as i128)),
            Ev::Fill { id, inst, time, buy, price, qty, fee } => format!(
                "(OFill (mkOF {} {} {} {} {} {} {}))",
                n(*id as u128),
                n(*inst as u128),
                z(*time as i128),
                if *buy { "Buy" } else { "Sell" },
                dec_q(*price),
                dec_q(*qty),
                dec_q(*fee)
            ),
        }
    }
}

// ---- printing observed state ----------------------------------------------------------------

fn side_s(s: Side) -> &'static str {
    match s {
        Side::Buy => "Buy",
        Side::Sell => "Sell",
    }
}
fn trade_ids(ts: &[TradeId]) -> String {
    list(
        &ts.iter()
            .map(|t| n(t.0.as_str().strip_prefix('t').expect("trade id").parse::<u128>().expect("trade id number")))
            .collect::<Vec<_>>(),
    )
}
fn ms(t: DateTime<Utc>) -> String {
    z(t.timestamp_millis() as i128)
}
fn coq_pos(p: &Position<QuoteAsset, InstrumentIndex>) -> String {
    format!(
        "(mkOP {} {} {} {} {} {} {} {} {} {} {} {})",
        n(p.instrument.0 as u128),
        side_s(p.side),
        dec_q(p.price_entry_average),
        dec_q(p.quantity_abs),
        dec_q(p.quantity_abs_max),
        dec_q(p.pnl_unrealised),
        dec_q(p.pnl_realised),
        dec_q(p.fees_enter.fees),
        dec_q(p.fees_exit.fees),
        ms(p.time_enter),
        ms(p.time_exchange_update),
        trade_ids(&p.trades)
    )
}
fn coq_exit(x: &PositionExited<QuoteAsset, InstrumentIndex>) -> String {
    format!(
        "(mkOX {} {} {} {} {} {} {} {} {} {})",
        n(x.instrument.0 as u128),
        side_s(x.side),
        dec_q(x.price_entry_average),
        dec_q(x.quantity_abs_max),
        dec_q(x.pnl_realised),
        dec_q(x.fees_enter.fees),
        dec_q(x.fees_exit.fees),
        ms(x.time_enter),
        ms(x.time_exit),
        trade_ids(&x.trades)
    )
}
fn coq_level(l: &Option<Level>) -> String {
    opt(l.map(|l| pair(&dec_q(l.price), &dec_q(l.amount))))
}
fn coq_istate(s: &InstrumentState<DefaultInstrumentMarketData>) -> String {
    let price = catch(|| s.data.price()).unwrap_or(None);
    format!(
        "(mkOI {} {} {} {} {} {})",
        opt(s.position.current.as_ref().map(coq_pos)),
        opt(price.map(dec_q)),
        ms(s.data.l1.last_update_time),
        coq_level(&s.data.l1.best_bid),
        coq_level(&s.data.l1.best_ask),
        opt(s.data.last_traded_price.as_ref().map(|t| pair(&ms(t.time), &dec_q(t.value))))
    )
}

// ---- engine ------------------------------------------------------------------------------------

/// one instrument of the engine: exchange (0 BinanceSpot, 1 Okx, 2 Kraken), kind (0 spot,
/// 1 perpetual, 2 future, 3 option), contract size, settlement asset = quote asset or another one
#[derive(Clone, Debug)]
struct Inst {
    exch: u64,
    kind: u64,
    size: Decimal,
    settle_quote: bool,
}

impl Inst {
    fn spot() -> Inst {
        Inst { exch: 0, kind: 0, size: Decimal::ONE, settle_quote: true }
    }
    fn to_json(&self) -> Value {
        json!({"exch": self.exch, "kind": self.kind, "size": self.size.to_string(), "settle_quote": self.settle_quote})
    }
    fn from_json(v: &Value) -> Inst {
        Inst {
            exch: v["exch"].as_u64().unwrap_or(0),
            kind: v["kind"].as_u64().unwrap_or(0),
            size: if v["size"].is_null() { Decimal::ONE } else { json_dec(&v["size"]) },
            settle_quote: v["settle_quote"].as_bool().unwrap_or(true),
        }
    }
    fn coq(&self) -> String {
        format!("(mkInst {} {} {} {})", n(self.kind as u128), dec_q(self.size), b(self.settle_quote), n(self.exch as u128))
    }
}

fn insts_from_json(inp: &Value) -> Vec<Inst> {
    match inp["insts"].as_array() {
        Some(a) if !a.is_empty() => a.iter().map(Inst::from_json).collect(),
        _ => (0..inp["n"].as_u64().unwrap_or(2)).map(|_| Inst::spot()).collect(),
    }
}

/// builds the engine; returns it with, per instrument INDEX (the builder sorts and indexes the
/// instruments itself), the exchange id / index to address events with
fn build_engine(insts: &[Inst]) -> (Eng, Vec<(ExchangeId, ExchangeIndex)>) {
    // names share prefixes on purpose
    let bases = ["btc", "btcd", "bt", "btcusd", "b"];
    let exchanges = [ExchangeId::BinanceSpot, ExchangeId::Okx, ExchangeId::Kraken];
    let mut bld = IndexedInstruments::builder();
    for (k, i) in insts.iter().enumerate() {
        let base = bases[k % bases.len()];
        let exchange = exchanges[(i.exch % 3) as usize];
        let settle: Asset = if i.settle_quote { Asset::from("usdt") } else { Asset::from("usdc") };
        let expiry = time_of(1_900_000_000_000);
        let (kind_name, kind) = match i.kind {
            0 => ("spot", InstrumentKind::Spot),
            1 => ("perp", InstrumentKind::Perpetual(PerpetualContract { contract_size: i.size, settlement_asset: settle })),
            2 => ("fut", InstrumentKind::Future(FutureContract { contract_size: i.size, settlement_asset: settle, expiry })),
            _ => (
                "opt",
                InstrumentKind::Option(OptionContract {
                    contract_size: i.size,
                    settlement_asset: settle,
                    kind: OptionKind::Call,
                    exercise: OptionExercise::European,
                    expiry,
                    strike: mk_dec(100, 0),
                }),
            ),
        };
        bld = bld.add_instrument(Instrument::new(
            exchange,
            format!("{}_{base}_usdt_{kind_name}", exchange.as_str()),
            format!("{}USDT{}", base.to_uppercase(), kind_name.to_uppercase()),
            Underlying::new(base, "usdt"),
            InstrumentQuoteAsset::UnderlyingQuote,
            kind,
            None,
        ));
    }
    let instruments = bld.build();
    assert_eq!(instruments.instruments().len(), insts.len(), "instrument specs must be distinct");
    let exch: Vec<(ExchangeId, ExchangeIndex)> =
        instruments.instruments().iter().map(|k| (k.value.exchange.value, k.value.exchange.key)).collect();
    let state: State = EngineState::builder(&instruments, DefaultGlobalData::default(), DefaultInstrumentMarketData::default)
        .time_engine_start(time_of(0))
        .trading_state(TradingState::Disabled)
        .build();
    let txs = MultiExchangeTxMap::from_iter(instruments.exchanges().iter().map(|e| {
        let (tx, rx) = mpsc_unbounded::<ExecutionRequest>();
        std::mem::forget(rx); // keep the link open
        (e.value, Some(tx))
    }));
    (
        Engine::new(
            HistoricalClock::new(time_of(0)),
            state,
            txs,
            DefaultStrategy::default(),
            DefaultRiskManager::default(),
        ),
        exch,
    )
}

/// the instrument as the built engine state holds it (kind, contract size, settlement = quote?,
/// exchange index), in index order
fn coq_inst(s: &InstrumentState<DefaultInstrumentMarketData>) -> (String, String) {
    let (code, name) = match &s.instrument.kind {
        InstrumentKind::Spot => (0u128, "spot"),
        InstrumentKind::Perpetual(_) => (1, "perp"),
        InstrumentKind::Future(_) => (2, "future"),
        InstrumentKind::Option(_) => (3, "option"),
    };
    let size = s.instrument.kind.contract_size();
    let settle_quote = match s.instrument.kind.settlement_asset() {
        Some(a) => *a == s.instrument.underlying.quote,
        None => true,
    };
    (
        format!("(mkInst {} {} {} {})", n(code), dec_q(size), b(settle_quote), n(s.instrument.exchange.0 as u128)),
        format!("inst_{}_size_{}", name, size.normalize()),
    )
}

fn coq_flags(frame_ok: bool, restores: &[bool], rt_ok: bool) -> String {
    let idx: Vec<String> = restores.iter().enumerate().filter(|(_, r)| **r).map(|(k, _)| n(k as u128)).collect();
    format!("(mkFlags {} {} {})", b(frame_ok), list(&idx), b(rt_ok))
}

fn run_case(insts: &[Inst], evs: &[Ev], rds: &[i64], restores: &[bool]) -> (String, Vec<String>) {
    let mut tags = vec![];
    let (mut engine, exch) = build_engine(insts);
    let descr: Vec<(String, String)> = engine.state.instruments.0.values().map(coq_inst).collect();
    for ev in evs {
        tags.push(format!("{}_{}", if matches!(ev, Ev::Fill { .. }) { "fill_on" } else { "market_on" }, descr[ev.inst() as usize].1));
    }
    let mut obs = vec![];
    let mut frame_ok = true;
    let mut rt_ok = true;
    for (k, ev) in evs.iter().enumerate() {
        let rd = rds.get(k).copied().unwrap_or(0);
        if restores.get(k).copied().unwrap_or(false) {
            // persist / restore every InstrumentState (position, market data, orders, tear sheet)
            // through JSON before this event
            let mut any_open = false;
            for st in engine.state.instruments.0.values_mut() {
                any_open |= st.position.current.is_some();
                let restored = serde_json::to_string(&*st)
                    .ok()
                    .and_then(|s| serde_json::from_str::<InstrumentState<DefaultInstrumentMarketData>>(&s).ok());
                match restored {
                    Some(r) => {
                        if r != *st {
                            rt_ok = false;
                        }
                        *st = r;
                    }
                    None => rt_ok = false,
                }
            }
            tags.push(if any_open { "restore_with_open_position" } else { "restore_all_flat" }.to_string());
        }
        if !matches!(ev, Ev::Fill { .. }) {
            tags.push(
                match rd {
                    0 => "received_eq_exchange",
                    d if d < 0 => "received_before_exchange",
                    d if d < 1000 => "received_small_latency",
                    _ => "received_large_latency",
                }
                .to_string(),
            );
        }
        let i = ev.inst() as usize;
        let before: Vec<_> = engine.state.instruments.0.values().cloned().collect();
        let had_pos = before[i].position.current.is_some();
        let price_before = catch({
            let d = before[i].data.clone();
            move || d.price()
        })
        .unwrap_or(None);
        let audit = engine.process(ev.engine_event(&exch, rd));
        let mut exit = None;
        if let EngineAudit::Process(pa) = audit {
            for o in pa.outputs.into_iter() {
                if let EngineOutput::PositionExit(x) = o {
                    exit = Some(x);
                }
            }
        }
        let after: Vec<_> = engine.state.instruments.0.values().cloned().collect();
        for k in 0..after.len() {
            if k != i && after[k] != before[k] {
                frame_ok = false;
            }
        }
        let price_after = catch({
            let d = after[i].data.clone();
            move || d.price()
        })
        .unwrap_or(None);
        let has_pos = after[i].position.current.is_some();
        tags.push(match ev {
            Ev::Fill { .. } => match (had_pos, has_pos, exit.is_some()) {
                (false, true, _) => "fill_open".to_string(),
                (true, false, _) => "fill_close_exact".to_string(),
                (true, true, true) => "fill_flip".to_string(),
                (true, true, false) => {
                    let qb = before[i].position.current.as_ref().unwrap().quantity_abs;
                    let qa = after[i].position.current.as_ref().unwrap().quantity_abs;
                    if qa > qb { "fill_increase".to_string() } else { "fill_reduce".to_string() }
                }
                _ => "fill_other".to_string(),
            },
            _ => {
                let kind = match ev {
                    Ev::Trade { .. } => "trade",
                    Ev::L1 { .. } => "l1",
                    _ => "other",
                };
                let changed = after[i].data != before[i].data;
                format!(
                    "market_{}_{}_{}_{}",
                    kind,
                    if changed { "applied" } else { "ignored" },
                    if has_pos { "pos" } else { "flat" },
                    match (price_before, price_after) {
                        (_, None) => "noprice",
                        (Some(a), Some(b)) if a == b => "sameprice",
                        _ => "newprice",
                    }
                )
            }
        });
        obs.push(pair(&coq_istate(&after[i]), &opt(exit.as_ref().map(coq_exit))));
    }
    let fin: Vec<String> = engine.state.instruments.0.values().map(coq_istate).collect();
    let coq = format!(
        "(CEngine {} {} {} {} {})",
        list(&descr.iter().map(|d| d.0.clone()).collect::<Vec<_>>()),
        list(&evs.iter().enumerate().map(|(k, e)| e.coq(rds.get(k).copied().unwrap_or(0))).collect::<Vec<_>>()),
        list(&obs),
        list(&fin),
        coq_flags(frame_ok, restores, rt_ok)
    );
    if !rt_ok {
        tags.push("roundtrip_changed".to_string());
    }
    (coq, tags)
}

fn emit(em: &mut Emitter, stream: &'static str, insts: &[Inst], evs: &[Ev], rds: &[i64], restores: &[bool]) {
    let evs2 = evs.to_vec();
    let insts2 = insts.to_vec();
    let rds2 = rds.to_vec();
    let restores2 = restores.to_vec();
    let r = catch(move || run_case(&insts2, &evs2, &rds2, &restores2));
    let (coq, tags) = match r {
        Ok(x) => x,
        Err(msg) => {
            // a panic inside the engine: report an observation list that cannot match
            (
                format!(
                    "(CEngine {} {} [] [] (mkFlags false [] false))",
                    list(&insts.iter().map(|i| i.coq()).collect::<Vec<_>>()),
                    list(&evs.iter().enumerate().map(|(k, e)| e.coq(rds.get(k).copied().unwrap_or(0))).collect::<Vec<_>>())
                ),
                vec![format!("panic:{}", msg.chars().take(60).collect::<String>())],
            )
        }
    };
    let has_fill = evs.iter().any(|e| matches!(e, Ev::Fill { .. }));
    let has_market = evs.iter().any(|e| !matches!(e, Ev::Fill { .. }));
    em.emit(Case {
        stream,
        input: json!({"insts": insts.iter().map(|i| i.to_json()).collect::<Vec<_>>(), "events": evs.iter().enumerate().map(|(k, e)| {
            let mut j = e.to_json();
            if !matches!(e, Ev::Fill { .. }) {
                j["rd"] = json!(rds.get(k).copied().unwrap_or(0));
            }
            if restores.get(k).copied().unwrap_or(false) {
                j["restore_before"] = json!(true);
            }
            j
        }).collect::<Vec<_>>()}),
        coq,
        nontrivial: has_fill && has_market,
        tags,
    });
}

// ---- generators ---------------------------------------------------------------------------------

/// price grid shared by fills and market data: 80.00 .. 120.00 (quarters), so that market prices
/// and entry prices are comparable
fn gen_quarter(r: &mut Rng) -> i64 {
    r.range(320, 480)
}
fn quarter_dec(q: i64) -> Decimal {
    mk_dec(q * 25, 2)
}
fn gen_amount(r: &mut Rng) -> Decimal {
    match r.below(3) {
        0 => mk_dec(r.range(1, 9), 0),
        1 => mk_dec(r.range(1, 9999), 3),
        _ => mk_dec(r.range(5, 500), 1),
    }
}
fn gen_l1(r: &mut Rng, inst: u64, time: i64, adv: bool) -> Ev {
    let mid = gen_quarter(r);
    let bid = if r.chance(1, 8) { None } else { Some((quarter_dec(mid - r.range(0, 3)), gen_amount(r))) };
    let ask = if r.chance(1, 8) { None } else { Some((quarter_dec(mid + r.range(0, 3)), gen_amount(r))) };
    // connectors set last_update_time = time_exchange; adversarial: an unrelated one
    let lt = if adv && r.chance(1, 12) { time + r.range(-5000, 5000) } else { time };
    Ev::L1 { inst, time, lt, bid, ask }
}

/// 2-4 instruments: spot and derivative kinds, contract sizes 1 / 0.001 / 0.01 / 100, settlement in
/// the quote asset or another one, on up to three exchanges
fn gen_insts(r: &mut Rng) -> Vec<Inst> {
    let n = 2 + r.below(3);
    let sizes = [mk_dec(1, 0), mk_dec(1, 3), mk_dec(1, 2), mk_dec(100, 0)];
    (0..n)
        .map(|_| {
            let kind = r.below(4);
            Inst {
                exch: r.below(3),
                kind,
                size: if kind == 0 { Decimal::ONE } else { *r.pick(&sizes) },
                settle_quote: kind == 0 || r.chance(1, 2),
            }
        })
        .collect()
}

/// MarketEvent.time_received - time_exchange per event: a history has a base latency class (none,
/// a few ms, larger than the usual gap between events) with per-event jitter, and occasionally a
/// receive time BEFORE the exchange stamp (clock skew)
/// persist / restore points: none in a third of the histories, before ~1 event in 5 otherwise
fn gen_restores(r: &mut Rng, len: usize) -> Vec<bool> {
    let none = r.chance(1, 3);
    (0..len).map(|_| !none && r.chance(1, 5)).collect()
}

fn gen_rds(r: &mut Rng, len: usize) -> Vec<i64> {
    let class = r.below(4);
    (0..len)
        .map(|_| match r.below(10) {
            0 => -(r.below(4_000) as i64) - 1,
            1 => 0,
            _ => match class {
                0 => 0,
                1 => r.below(50) as i64,
                2 => 3_000 + r.below(20_000) as i64,
                _ => *r.pick(&[0i64, 3, 800, 6_000, 60_000]),
            },
        })
        .collect()
}

fn gen_history(r: &mut Rng, max_len: u64, adv: bool) -> (Vec<Inst>, Vec<Ev>) {
    let insts = gen_insts(r);
    let n_inst = insts.len() as u64;
    let len = 1 + r.below(max_len);
    let mut front = 1_700_000_000_000i64 + r.below(1_000_000) as i64;
    let mut net: Vec<Decimal> = vec![Decimal::ZERO; n_inst as usize];
    let mut evs = vec![];
    let mut next_id = 1u64;
    let mut seen_times: Vec<i64> = vec![];
    // a history leans towards one style of market data so that both price sources get used
    let style = r.below(3); // 0: trades only, 1: l1 only, 2: mixed
    // half of the histories open / flip positions with zero-fee fills only: they stay outside the
    // known-finding class (a freshly opened position stores 0, which is the estimate when fee = 0)
    let zero_fee_opens = r.chance(1, 2);
    for _ in 0..len {
        let inst = if r.chance(3, 4) { 0 } else { r.below(n_inst) };
        // timestamps are non-monotone and collide ACROSS event kinds (a trade stamped later than
        // a subsequent top-of-book update, equal stamps on a trade and an L1, ...): `front` is the
        // running front, `t_ev` the stamp of this event
        let t_ev = match r.below(if adv { 6 } else { 10 }) {
            0 if !seen_times.is_empty() => *r.pick(&seen_times), // equal to an earlier event of any kind
            1 => front - r.below(3_000) as i64,                  // behind the front
            2 if seen_times.len() >= 2 => {
                // strictly between two earlier stamps
                let a = *r.pick(&seen_times);
                let b = *r.pick(&seen_times);
                (a + b) / 2
            }
            _ => {
                front += 1 + r.below(5_000) as i64;
                front
            }
        };
        seen_times.push(t_ev);
        let time = t_ev;
        let ev = if r.chance(2, 5) {
            // fill
            let i = inst as usize;
            let (buy, qty) = if !net[i].is_zero() && r.chance(1, 2) {
                let abs = net[i].abs();
                let buy = net[i].is_sign_negative();
                let qty = match r.below(4) {
                    0 => abs,
                    1 => abs + mk_dec(r.range(1, 30), 1),
                    2 => {
                        let q = abs * mk_dec(r.range(1, 9), 1);
                        if q.is_zero() || q.scale() > 12 { abs } else { q }
                    }
                    _ => mk_dec(r.range(1, 40), 1),
                };
                (buy, qty)
            } else {
                (r.chance(1, 2), mk_dec(r.range(1, 40), 1))
            };
            let price = quarter_dec(gen_quarter(r));
            let fee = match r.below(4) {
                0 => Decimal::ZERO,
                1 => price * qty * mk_dec(1, 3),
                2 => mk_dec(r.range(1, 300), 2),
                _ => price * qty * mk_dec(r.range(1, 50), 4),
            };
            let opens = net[i].is_zero() || (net[i].is_sign_negative() == buy && qty > net[i].abs());
            let fee = if zero_fee_opens && opens { Decimal::ZERO } else { fee };
            net[i] += if buy { qty } else { -qty };
            let id = next_id;
            next_id += 1;
            Ev::Fill { id, inst, time, buy, price, qty, fee }
        } else {
            let k = r.below(10);
            if k == 0 {
                Ev::Other { inst, time, kind: r.below(2) }
            } else if (style == 0 && k < 9) || (style == 2 && k < 5) {
                let quarter = if adv && r.chance(1, 10) { None } else { Some(gen_quarter(r)) };
                Ev::Trade { inst, time, quarter }
            } else {
                gen_l1(r, inst, time, adv)
            }
        };
        evs.push(ev);
    }
    (insts, evs)
}

/// Exhaustive table: position state (flat / fresh long / fresh short / increased / reduced /
/// flipped) x market data state (none / last trade only / L1 only / both) x next event (newer
/// trade, older trade, equal-time trade, NaN trade, newer L1 two-sided, newer L1 one-sided, older
/// L1, candle, increase, reduce, close, flip), on instrument 0 with a bystander instrument 1.
fn table(em: &mut Emitter) {
    let i = |exch: u64, kind: u64, m: i64, sc: u32, settle_quote: bool| Inst { exch, kind, size: mk_dec(m, sc), settle_quote };
    let sets: Vec<Vec<Inst>> = vec![
        vec![Inst::spot(), Inst::spot()],
        vec![i(1, 1, 1, 3, false), i(0, 1, 1, 0, true)],
        vec![i(0, 2, 100, 0, true), Inst::spot()],
        vec![i(2, 3, 1, 2, false), i(1, 1, 1, 3, true)],
        vec![i(1, 1, 100, 0, true), i(0, 2, 1, 2, false), Inst::spot()],
        vec![i(0, 1, 1, 3, true), i(0, 1, 1, 3, false)],
        vec![i(2, 2, 1, 3, false), i(1, 3, 100, 0, true)],
    ];
    let mut case_no = 0usize;
    let f = |id: u64, time: i64, buy: bool, q4: i64, qty: i64, fee: i64| Ev::Fill {
        id,
        inst: 0,
        time,
        buy,
        price: quarter_dec(q4),
        qty: mk_dec(qty, 1),
        fee: mk_dec(fee, 1),
    };
    // opening fills mostly carry no fee (outside the known-finding class); two prefixes keep a
    // fee on the opening fill / on the flipping fill (inside it)
    let positions: Vec<Vec<Ev>> = vec![
        vec![],
        vec![f(1, 1000, true, 400, 20, 0)],
        vec![f(1, 1000, false, 400, 20, 0)],
        vec![f(1, 1000, true, 400, 20, 10)],
        vec![f(1, 1000, true, 400, 20, 0), f(2, 1100, true, 420, 10, 5)],
        vec![f(1, 1000, false, 400, 20, 0), f(2, 1100, true, 380, 5, 5)],
        vec![f(1, 1000, true, 400, 20, 0), f(2, 1100, false, 440, 50, 0)],
        vec![f(1, 1000, true, 400, 20, 0), f(2, 1100, false, 440, 50, 25)],
    ];
    let datas: Vec<Vec<Ev>> = vec![
        vec![],
        vec![Ev::Trade { inst: 0, time: 2000, quarter: Some(410) }],
        vec![Ev::L1 { inst: 0, time: 2000, lt: 2000, bid: Some((quarter_dec(408), mk_dec(3, 0))), ask: Some((quarter_dec(412), mk_dec(1, 0))) }],
        vec![
            Ev::L1 { inst: 0, time: 2000, lt: 2000, bid: Some((quarter_dec(408), mk_dec(3, 0))), ask: Some((quarter_dec(412), mk_dec(1, 0))) },
            Ev::Trade { inst: 0, time: 3500, quarter: Some(410) },
        ],
        vec![
            Ev::L1 { inst: 0, time: 2000, lt: 2000, bid: Some((quarter_dec(408), mk_dec(3, 0))), ask: Some((quarter_dec(412), mk_dec(1, 0))) },
            Ev::Trade { inst: 0, time: 3000, quarter: Some(410) },
        ],
        vec![
            Ev::Trade { inst: 0, time: 2000, quarter: Some(410) },
            Ev::L1 { inst: 0, time: 2100, lt: 2100, bid: Some((quarter_dec(408), mk_dec(3, 0))), ask: Some((quarter_dec(412), mk_dec(1, 0))) },
        ],
    ];
    let nexts: Vec<Ev> = vec![
        Ev::Trade { inst: 0, time: 3000, quarter: Some(430) },
        Ev::Trade { inst: 0, time: 1500, quarter: Some(430) },
        Ev::Trade { inst: 0, time: 2000, quarter: Some(430) },
        Ev::Trade { inst: 0, time: 3000, quarter: None },
        Ev::L1 { inst: 0, time: 3000, lt: 3000, bid: Some((quarter_dec(428), mk_dec(1, 0))), ask: Some((quarter_dec(432), mk_dec(3, 0))) },
        Ev::L1 { inst: 0, time: 3000, lt: 3000, bid: Some((quarter_dec(428), mk_dec(1, 0))), ask: None },
        Ev::L1 { inst: 0, time: 1500, lt: 1500, bid: Some((quarter_dec(428), mk_dec(1, 0))), ask: Some((quarter_dec(432), mk_dec(3, 0))) },
        Ev::L1 { inst: 0, time: 2000, lt: 2000, bid: Some((quarter_dec(428), mk_dec(1, 0))), ask: Some((quarter_dec(432), mk_dec(3, 0))) },
        Ev::Other { inst: 0, time: 3000, kind: 0 },
        Ev::Other { inst: 0, time: 3000, kind: 1 },
        Ev::Trade { inst: 1, time: 3000, quarter: Some(350) },
        f(9, 3000, true, 436, 10, 4),
        f(9, 3000, false, 436, 10, 4),
        f(9, 3000, true, 436, 200, 0),
        f(9, 3000, false, 436, 200, 0),
        f(9, 3000, false, 436, 200, 8),
    ];
    for ps in &positions {
        for ds in &datas {
            for order in 0..2 {
                for nx in &nexts {
                    // market data before or after the fills
                    let mut evs: Vec<Ev> = vec![];
                    if order == 0 {
                        evs.extend(ps.iter().cloned());
                        evs.extend(ds.iter().cloned());
                    } else {
                        if ds.len() != 1 || ps.is_empty() {
                            continue;
                        }
                        evs.extend(ds.iter().cloned());
                        evs.extend(ps.iter().cloned());
                    }
                    evs.push(nx.clone());
                    // a closing / follow-up market event so that the state after a fill is refreshed too
                    evs.push(Ev::Other { inst: 0, time: 4000, kind: 0 });
                    // the instrument set rotates with the case number so that every position x
                    // market-data x event class meets spot and derivative instruments
                    let insts = &sets[case_no % sets.len()];
                    case_no += 1;
                    // receive-time latency rotates too: none / a few ms / larger than every gap
                    // between the table's events / received before the exchange stamp
                    let lat = [0i64, 7, 10_000, -1_500, 900][(case_no / 2) % 5];
                    let rds: Vec<i64> = evs.iter().map(|_| lat).collect();
                    // persist / restore before every event in one case out of three
                    let restores: Vec<bool> = evs.iter().map(|_| case_no % 3 == 1).collect();
                    emit(em, "table", insts, &evs, &rds, &restores);
                }
            }
        }
    }
}

fn main() {
    quiet_panics();
    let args = parse_args();
    let mut em = Emitter::create(&args.out);
    match args.mode.as_str() {
        "gen" => {
            let mut r = Rng::new(args.seed);
            let (n_rand, n_adv, max_len) = if args.tier == "thorough" { (2500, 800, 80) } else { (170, 60, 30) };
            table(&mut em);
            for _ in 0..n_rand {
                let (insts, evs) = gen_history(&mut r, max_len, false);
                let rds = gen_rds(&mut r, evs.len());
                let restores = gen_restores(&mut r, evs.len());
                emit(&mut em, "random", &insts, &evs, &rds, &restores);
            }
            for _ in 0..n_adv {
                let (insts, evs) = gen_history(&mut r, max_len, true);
                let rds = gen_rds(&mut r, evs.len());
                let restores = gen_restores(&mut r, evs.len());
                emit(&mut em, "adversarial", &insts, &evs, &rds, &restores);
            }
        }
        "exec" => {
            for (inp, stream) in read_inputs(args.input.as_deref().expect("--in")) {
                let evs: Vec<Ev> = inp["events"].as_array().unwrap().iter().map(Ev::from_json).collect();
                let rds: Vec<i64> = inp["events"].as_array().unwrap().iter().map(|e| e["rd"].as_i64().unwrap_or(0)).collect();
                let restores: Vec<bool> = inp["events"].as_array().unwrap().iter().map(|e| e["restore_before"].as_bool().unwrap_or(false)).collect();
                emit(&mut em, stream_static(&stream), &insts_from_json(&inp), &evs, &rds, &restores);
            }
        }
        m => panic!("unknown mode {m}"),
    }
    em.finish();
}
