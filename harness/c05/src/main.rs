//! C05 correspondence harness: drives barter_data::books::{OrderBook, OrderBookSide} on
//! generated event sequences and prints inputs + observed outputs as Coq terms (Corr/C05.v).
use barter_data::{
    books::{
        Level, OrderBook, OrderBookSide,
        manager::OrderBookL2Manager,
        map::{OrderBookMap, OrderBookMapMulti},
    },
    event::MarketEvent,
    streams::consumer::MarketStreamEvent,
    subscription::book::OrderBookEvent,
};
use barter_instrument::exchange::ExchangeId;
use std::sync::Arc;
use chrono::{DateTime, TimeZone, Utc};
use rust_decimal::Decimal;
use serde_json::{Value, json};
use vh_common::*;

const SCALE: u32 = 8;

fn time_of(ms: Option<i64>) -> Option<DateTime<Utc>> {
    ms.map(|m| Utc.timestamp_millis_opt(m).unwrap())
}

fn lv(l: &[(Decimal, Decimal)]) -> Vec<Level> {
    l.iter().map(|(p, a)| Level::new(*p, *a)).collect()
}

fn coq_levels(ls: &[Level]) -> String {
    list(
        &ls.iter()
            .map(|l| pair(&dec_z(l.price, SCALE), &dec_z(l.amount, SCALE)))
            .collect::<Vec<_>>(),
    )
}
fn coq_raw(ls: &[(Decimal, Decimal)]) -> String {
    list(
        &ls.iter()
            .map(|(p, a)| pair(&dec_z(*p, SCALE), &dec_z(*a, SCALE)))
            .collect::<Vec<_>>(),
    )
}

#[derive(Clone, Debug)]
struct Ev {
    snapshot: bool,
    seq: u64,
    time: Option<i64>,
    bids: Vec<(Decimal, Decimal)>,
    asks: Vec<(Decimal, Decimal)>,
}

fn levels_json(l: &[(Decimal, Decimal)]) -> Value {
    Value::Array(
        l.iter()
            .map(|(p, a)| json!([p.to_string(), a.to_string()]))
            .collect(),
    )
}
fn levels_from(v: &Value) -> Vec<(Decimal, Decimal)> {
    v.as_array()
        .unwrap()
        .iter()
        .map(|x| (json_dec(&x[0]), json_dec(&x[1])))
        .collect()
}

impl Ev {
    fn to_json(&self) -> Value {
        json!({"snapshot": self.snapshot, "seq": self.seq, "time": self.time,
               "bids": levels_json(&self.bids), "asks": levels_json(&self.asks)})
    }
    fn from_json(v: &Value) -> Ev {
        Ev {
            snapshot: v["snapshot"].as_bool().unwrap(),
            seq: v["seq"].as_u64().unwrap(),
            time: v["time"].as_i64(),
            bids: levels_from(&v["bids"]),
            asks: levels_from(&v["asks"]),
        }
    }
    fn coq(&self) -> String {
        format!(
            "({} {} {} {} {})",
            if self.snapshot { "Snapshot" } else { "Update" },
            n(self.seq as u128),
            opt(self.time.map(|t| z(t as i128))),
            coq_raw(&self.bids),
            coq_raw(&self.asks)
        )
    }
}

fn run_book_case(evs: &[Ev], depth: usize) -> (String, Vec<String>) {
    let mut book = OrderBook::default();
    let mut obs = vec![];
    let mut tags = vec![];
    for e in evs {
        let ob = OrderBook::new(e.seq, time_of(e.time), lv(&e.bids), lv(&e.asks));
        let ev = if e.snapshot {
            OrderBookEvent::Snapshot(ob)
        } else {
            OrderBookEvent::Update(ob)
        };
        let before = (book.bids().levels().len(), book.asks().levels().len());
        book.update(ev);
        let after = (book.bids().levels().len(), book.asks().levels().len());
        tags.push(
            if e.snapshot {
                "snapshot"
            } else if after.0 + after.1 > before.0 + before.1 {
                "update_grow"
            } else if after.0 + after.1 < before.0 + before.1 {
                "update_shrink"
            } else {
                "update_same_size"
            }
            .to_string(),
        );
        let mid = book.mid_price();
        let b2 = book.clone();
        let vw = catch(move || b2.volume_weighed_mid_price());
        let snap = book.snapshot(depth);
        let vw_s = match vw {
            Ok(None) => "OVwNone".to_string(),
            Ok(Some(q)) => format!("(OVwValue {})", dec_q(q)),
            Err(_) => "OVwPanic".to_string(),
        };
        obs.push(format!(
            "(mkObs {} {} {} {} {} {} {} {})",
            n(book.sequence as u128),
            opt(book.time_engine.map(|t| z(t.timestamp_millis() as i128))),
            coq_levels(book.bids().levels()),
            coq_levels(book.asks().levels()),
            opt(mid.map(dec_q)),
            vw_s,
            coq_levels(snap.bids().levels()),
            coq_levels(snap.asks().levels()),
        ));
        assert_eq!(snap.sequence, book.sequence);
        // persist / restore step (lesson L14): on the unchanged code a serde_json round trip of the
        // book is the identity; the model treats it as a no-op. A restored book that differs is a
        // panic here (reported as CBookPanic, which the oracle rejects); the run continues on the
        // restored book so a lossy (de)serialisation also shows in every later observation.
        if (e.seq as usize + obs.len()) % 3 == 0 {
            let js = serde_json::to_string(&book).expect("OrderBook serialises");
            // (on this tree `OrderBookSide.side` is `skip_serializing` without a default, so the
            // serialised book does not deserialise: the step is then skipped, not an outcome)
            if let Ok(restored) = serde_json::from_str::<OrderBook>(&js) {
                assert_eq!(restored, book, "serde round trip changed the book");
                book = restored;
                tags.push("persist_restore".to_string());
            } else {
                tags.push("persist_not_restorable".to_string());
            }
        }
    }
    let coq = format!(
        "(CBook {} {} {})",
        list(&evs.iter().map(|e| e.coq()).collect::<Vec<_>>()),
        n(depth as u128),
        list(&obs)
    );
    (coq, tags)
}

fn run_side_case(bid: bool, init: &[(Decimal, Decimal)], ups: &[(Decimal, Decimal)]) -> String {
    let res: Vec<Level> = if bid {
        let mut s = OrderBookSide::bids(lv(init));
        s.upsert(lv(ups));
        s.levels().to_vec()
    } else {
        let mut s = OrderBookSide::asks(lv(init));
        s.upsert(lv(ups));
        s.levels().to_vec()
    };
    format!(
        "(CSide {} {} {} {})",
        if bid { "Bid" } else { "Ask" },
        coq_raw(init),
        coq_raw(ups),
        coq_levels(&res)
    )
}

// ---- generators ---------------------------------------------------------------------------

/// prices on a small grid so that collisions (replace / delete) are frequent; a few with many
/// decimals / large magnitude.
fn gen_price(r: &mut Rng) -> Decimal {
    match r.below(10) {
        0 => mk_dec(r.range(1, 99_999_999), 8),              // tiny, 8 decimals
        1 => mk_dec(r.range(1, 9) * 100_000_000, 0),         // huge
        _ => mk_dec(9_900 + r.range(0, 24) * 5, 2),          // 99.00 .. 100.20 step 0.05
    }
}
fn gen_amount(r: &mut Rng, zero_num: u64) -> Decimal {
    if r.chance(zero_num, 10) {
        // zero in several representations
        *r.pick(&[Decimal::ZERO, mk_dec(0, 2), mk_dec(0, 8)])
    } else {
        match r.below(4) {
            0 => mk_dec(r.range(1, 999), 3),
            1 => mk_dec(r.range(1, 50), 0),
            2 => mk_dec(r.range(1, 99_999_999), 8),
            _ => mk_dec(r.range(1, 9999), 1),
        }
    }
}
fn gen_levels(r: &mut Rng, max: u64, zero_num: u64, distinct: bool) -> Vec<(Decimal, Decimal)> {
    let k = r.below(max + 1);
    let mut v: Vec<(Decimal, Decimal)> = vec![];
    for _ in 0..k {
        let p = gen_price(r);
        if distinct && v.iter().any(|(q, _)| *q == p) {
            continue;
        }
        v.push((p, gen_amount(r, zero_num)));
    }
    v
}
/// an update list that, with some probability, targets existing prices of the (tracked) book
fn gen_update_levels(
    r: &mut Rng,
    existing: &[Decimal],
    max: u64,
    allow_dup_price: bool,
) -> Vec<(Decimal, Decimal)> {
    let k = r.below(max + 1);
    let mut v: Vec<(Decimal, Decimal)> = vec![];
    for _ in 0..k {
        let p = if !existing.is_empty() && r.chance(1, 2) {
            *r.pick(existing)
        } else {
            gen_price(r)
        };
        if !allow_dup_price && v.iter().any(|(q, _)| *q == p) {
            continue;
        }
        v.push((p, gen_amount(r, 3)));
    }
    v
}

fn gen_book_case(r: &mut Rng, max_events: u64, adversarial: bool) -> (Vec<Ev>, usize) {
    let n_ev = 1 + r.below(max_events);
    let mut evs = vec![];
    // shadow book only to aim updates at existing prices
    let mut shadow = OrderBook::default();
    let mut seq = r.below(1000);
    for i in 0..n_ev {
        let snapshot = (i == 0 && r.chance(2, 3)) || r.chance(1, 12);
        seq = if adversarial && r.chance(1, 4) {
            r.below(1000)
        } else {
            seq + 1 + r.below(3)
        };
        let mut time = if r.chance(1, 5) {
            None
        } else {
            Some(1_700_000_000_000 + r.below(100_000) as i64)
        };
        // venues that do not number their deltas / several deltas in one engine millisecond:
        // consecutive events sharing the sequence and / or the engine time of their predecessor
        if let Some(prev) = evs.last() {
            let prev: &Ev = prev;
            if r.chance(if adversarial { 1 } else { 0 }, 3) || r.chance(1, 10) {
                seq = prev.seq;
                time = prev.time;
            } else if r.chance(1, 10) {
                time = prev.time;
            } else if r.chance(1, 12) {
                seq = prev.seq;
            }
        }
        let (bids, asks) = if snapshot {
            // snapshot: distinct prices per side; zero amounts rarely (adversarial only)
            let zn = if adversarial { 2 } else { 0 };
            (gen_levels(r, 8, zn, true), gen_levels(r, 8, zn, true))
        } else {
            let eb: Vec<Decimal> = shadow.bids().levels().iter().map(|l| l.price).collect();
            let ea: Vec<Decimal> = shadow.asks().levels().iter().map(|l| l.price).collect();
            // duplicate prices inside one update only with at most 12 levels (the update's
            // sides are sorted by OrderBook::new; ties keep insertion order for short slices)
            (
                gen_update_levels(r, &eb, 6, adversarial),
                gen_update_levels(r, &ea, 6, adversarial),
            )
        };
        let e = Ev {
            snapshot,
            seq,
            time,
            bids,
            asks,
        };
        let ob = OrderBook::new(e.seq, time_of(e.time), lv(&e.bids), lv(&e.asks));
        shadow.update(if snapshot {
            OrderBookEvent::Snapshot(ob)
        } else {
            OrderBookEvent::Update(ob)
        });
        evs.push(e);
    }
    let depth = *r.pick(&[0usize, 1, 2, 3, 5, 100]);
    (evs, depth)
}

fn emit_book(em: &mut Emitter, stream: &'static str, evs: &[Ev], depth: usize) {
    let evs2 = evs.to_vec();
    let (coq, tags) = match catch(move || run_book_case(&evs2, depth)) {
        Ok(x) => x,
        Err(_) => (
            format!(
                "(CBookPanic {} {})",
                list(&evs.iter().map(|e| e.coq()).collect::<Vec<_>>()),
                n(depth as u128)
            ),
            vec!["panicked".to_string()],
        ),
    };
    let nontrivial = evs.iter().any(|e| !e.bids.is_empty() || !e.asks.is_empty());
    em.emit(Case {
        stream,
        input: json!({"kind": "book", "events": evs.iter().map(|e| e.to_json()).collect::<Vec<_>>(), "depth": depth}),
        coq,
        nontrivial,
        tags,
    });
}
fn emit_side(
    em: &mut Emitter,
    stream: &'static str,
    bid: bool,
    init: &[(Decimal, Decimal)],
    ups: &[(Decimal, Decimal)],
) {
    let (i2, u2) = (init.to_vec(), ups.to_vec());
    let coq = catch(move || run_side_case(bid, &i2, &u2)).unwrap_or_else(|_| {
        format!(
            "(CSidePanic {} {} {})",
            if bid { "Bid" } else { "Ask" },
            coq_raw(init),
            coq_raw(ups)
        )
    });
    em.emit(Case {
        stream,
        input: json!({"kind": "side", "bid": bid, "init": levels_json(init), "ups": levels_json(ups)}),
        coq,
        nontrivial: !ups.is_empty(),
        tags: vec![if bid { "side_bid" } else { "side_ask" }.to_string()],
    });
}

/// Exhaustive single-step table: every strictly sorted side over the price grid {1,2,3}
/// (8 subsets) x every upsert (price in {0..4} -> before/at/between/after, amount in {0, 7})
/// x both sides.
fn table(em: &mut Emitter) {
    for bid in [true, false] {
        for mask in 0..8u32 {
            let init: Vec<(Decimal, Decimal)> = (0..3)
                .filter(|i| mask & (1 << i) != 0)
                .map(|i| (mk_dec(10 + 10 * i as i64, 1), mk_dec(5 + i as i64, 0)))
                .collect();
            for p in [5i64, 10, 15, 20, 25, 30, 35] {
                for a in [0i64, 7] {
                    emit_side(em, "table", bid, &init, &[(mk_dec(p, 1), mk_dec(a, 0))]);
                }
            }
        }
    }
}

/// One manager stream item: Some(key) = item for that instrument key, None = reconnecting notice.
type MgrEv = (Option<usize>, Ev);

fn run_manager_case(nb: usize, mevs: &[MgrEv]) -> String {
    let books: fnv::FnvHashMap<usize, Arc<parking_lot::RwLock<OrderBook>>> = (0..nb)
        .map(|i| (i, Arc::new(parking_lot::RwLock::new(OrderBook::default()))))
        .collect();
    let map = OrderBookMapMulti::new(books);
    let items: Vec<MarketStreamEvent<usize, OrderBookEvent>> = mevs
        .iter()
        .map(|(k, e)| match k {
            None => MarketStreamEvent::Reconnecting(ExchangeId::BinanceSpot),
            Some(key) => {
                let ob = OrderBook::new(e.seq, time_of(e.time), lv(&e.bids), lv(&e.asks));
                MarketStreamEvent::Item(MarketEvent {
                    time_exchange: Utc.timestamp_millis_opt(0).unwrap(),
                    time_received: Utc.timestamp_millis_opt(0).unwrap(),
                    exchange: ExchangeId::BinanceSpot,
                    instrument: *key,
                    kind: if e.snapshot {
                        OrderBookEvent::Snapshot(ob)
                    } else {
                        OrderBookEvent::Update(ob)
                    },
                })
            }
        })
        .collect();
    let manager = OrderBookL2Manager {
        stream: futures::stream::iter(items),
        books: map.clone(),
    };
    let rt = tokio::runtime::Builder::new_current_thread()
        .enable_all()
        .build()
        .unwrap();
    rt.block_on(manager.run());
    let finals: Vec<String> = (0..nb)
        .map(|i| {
            let b = map.find(&i).expect("configured book");
            let b = b.read();
            format!(
                "({}, {}, {}, {})",
                n_(b.sequence),
                opt(b.time_engine.map(|t| z(t.timestamp_millis() as i128))),
                coq_levels(b.bids().levels()),
                coq_levels(b.asks().levels())
            )
        })
        .collect();
    format!(
        "(CManager {} {} {})",
        n(nb as u128),
        list(
            &mevs
                .iter()
                .map(|(k, e)| pair(&opt(k.map(|x| n(x as u128))), &e.coq()))
                .collect::<Vec<_>>()
        ),
        list(&finals)
    )
}
fn n_(x: u64) -> String {
    n(x as u128)
}

fn emit_manager(em: &mut Emitter, stream: &'static str, nb: usize, mevs: &[MgrEv]) {
    let m2 = mevs.to_vec();
    let coq = catch(move || run_manager_case(nb, &m2)).unwrap_or_else(|_| {
        // a manager that panics holds no books: reported as a book panic on the routed events
        format!(
            "(CBookPanic {} 0%N)",
            list(&mevs.iter().map(|(_, e)| e.coq()).collect::<Vec<_>>())
        )
    });
    em.emit(Case {
        stream,
        input: json!({"kind": "manager", "books": nb,
            "items": mevs.iter().map(|(k, e)| json!({"key": k, "event": e.to_json()})).collect::<Vec<_>>()}),
        coq,
        nontrivial: mevs.iter().any(|(k, e)| k.is_some() && (!e.bids.is_empty() || !e.asks.is_empty())),
        tags: vec!["manager".to_string()],
    });
}

fn gen_manager_case(r: &mut Rng, max_events: u64) -> (usize, Vec<MgrEv>) {
    let nb = 1 + r.below(4) as usize;
    let k = 1 + r.below(max_events);
    let mut mevs = vec![];
    let mut seq = r.below(100);
    for _ in 0..k {
        seq += 1 + r.below(3);
        let key = match r.below(12) {
            0 => None,                                  // reconnecting notice
            1 => Some(nb + r.below(2) as usize),        // non-configured instrument
            _ => Some(r.below(nb as u64) as usize),
        };
        let snapshot = r.chance(1, 5);
        let (bids, asks) = if snapshot {
            (gen_levels(r, 5, 0, true), gen_levels(r, 5, 0, true))
        } else {
            // aim at the small price grid so that books of different keys would collide if
            // an item were applied to the wrong book
            (gen_update_levels(r, &[], 4, false), gen_update_levels(r, &[], 4, false))
        };
        mevs.push((
            key,
            Ev {
                snapshot,
                seq,
                time: if r.chance(1, 4) { None } else { Some(1_700_000_000_000 + r.below(1000) as i64) },
                bids,
                asks,
            },
        ));
    }
    (nb, mevs)
}

fn main() {
    quiet_panics();
    let args = parse_args();
    let mut em = Emitter::create(&args.out);
    match args.mode.as_str() {
        "gen" => {
            let mut r = Rng::new(args.seed);
            let (n_book, n_adv, n_side, max_ev) = if args.tier == "thorough" {
                (6000, 2000, 4000, 60)
            } else {
                (250, 100, 200, 25)
            };
            table(&mut em);
            for _ in 0..n_book {
                let (evs, d) = gen_book_case(&mut r, max_ev, false);
                emit_book(&mut em, "random", &evs, d);
            }
            for _ in 0..n_adv {
                let (evs, d) = gen_book_case(&mut r, max_ev, true);
                emit_book(&mut em, "adversarial", &evs, d);
            }
            let n_mgr = if args.tier == "thorough" { 1500 } else { 120 };
            for _ in 0..n_mgr {
                let (nb, mevs) = gen_manager_case(&mut r, 14);
                emit_manager(&mut em, "random", nb, &mevs);
            }
            for _ in 0..n_side {
                let bid = r.chance(1, 2);
                let init = gen_levels(&mut r, 8, 1, true);
                let existing: Vec<Decimal> = init.iter().map(|x| x.0).collect();
                let ups = gen_update_levels(&mut r, &existing, 12, true);
                emit_side(&mut em, "adversarial", bid, &init, &ups);
            }
        }
        "exec" => {
            for (inp, stream) in read_inputs(args.input.as_deref().expect("--in")) {
                let st = stream_static(&stream);
                if inp["kind"] == "manager" {
                    let mevs: Vec<MgrEv> = inp["items"]
                        .as_array()
                        .unwrap()
                        .iter()
                        .map(|it| (it["key"].as_u64().map(|x| x as usize), Ev::from_json(&it["event"])))
                        .collect();
                    emit_manager(&mut em, st, inp["books"].as_u64().unwrap() as usize, &mevs);
                } else if inp["kind"] == "book" {
                    let evs: Vec<Ev> = inp["events"]
                        .as_array()
                        .unwrap()
                        .iter()
                        .map(Ev::from_json)
                        .collect();
                    emit_book(&mut em, st, &evs, inp["depth"].as_u64().unwrap() as usize);
                } else {
                    emit_side(
                        &mut em,
                        st,
                        inp["bid"].as_bool().unwrap(),
                        &levels_from(&inp["init"]),
                        &levels_from(&inp["ups"]),
                    );
                }
            }
        }
        m => panic!("unknown mode {m}"),
    }
    em.finish();
}
