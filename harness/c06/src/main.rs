//! C06 correspondence harness: drives the real Binance spot / USD-futures L2 sequencers and
//! order-book transformers (init + transform, messages deserialised from venue-format JSON)
//! feeding the real `OrderBook::update`, on perturbed deliveries of a simulated exchange's
//! depth-update stream, and prints inputs + observed outputs as Coq terms (Corr/C06.v).
#![allow(non_snake_case)]
use barter_data::{
    books::{Level, OrderBook},
    error::DataError,
    event::MarketEvent,
    exchange::binance::{
        book::{BinanceLevel, l2::BinanceOrderBookL2Snapshot},
        futures::{
            BinanceFuturesUsd,
            l2::{
                BinanceFuturesOrderBookL2Update, BinanceFuturesUsdOrderBookL2Sequencer,
                BinanceFuturesUsdOrderBooksL2Transformer,
            },
        },
        spot::{
            BinanceSpot,
            l2::{
                BinanceSpotOrderBookL2Sequencer, BinanceSpotOrderBookL2Update,
                BinanceSpotOrderBooksL2Transformer,
            },
        },
    },
    subscription::{
        Map,
        book::{OrderBookEvent, OrderBooksL2},
    },
    transformer::ExchangeTransformer,
};
use barter_instrument::exchange::ExchangeId;
use barter_integration::{
    Transformer, protocol::websocket::WsMessage, subscription::SubscriptionId,
};
use chrono::{TimeZone, Utc};
use fnv::FnvHashMap;
use rust_decimal::Decimal;
use serde_json::{Value, json};
use std::collections::BTreeMap;
use std::panic::AssertUnwindSafe;
use vh_common::*;

const SCALE: u32 = 2;
/// subscription ids are numbered by their position here; the first N_SUB can be subscribed
/// (three of them share prefixes: BTCUSD < BTCUSDT < BTCUSDTPERP), the others never are
/// (a lower-case spelling of a subscribed symbol, and an unrelated one); a symbol that is not
/// subscribed in a given case also serves as an "unknown" id there
const SYMBOLS: [&str; 6] = ["BTCUSDT", "BTCUSDTPERP", "ETHUSDT", "BTCUSD", "btcusdt", "XRPUSDT"];
const N_SUB: usize = 4;
const BID_GRID: [i64; 4] = [9900, 9925, 9950, 9975];
const ASK_GRID: [i64; 4] = [10000, 10025, 10050, 10075];
const T0: i64 = 1_700_000_000_000;

type Lv = (i64, i64); // (price, amount) in hundredths
type Ev = MarketEvent<u64, OrderBookEvent>;

fn sub_id(sid: usize) -> SubscriptionId {
    SubscriptionId::from(format!("@depth@100ms|{}", SYMBOLS[sid]).as_str())
}
fn dec(x: i64) -> Decimal {
    Decimal::new(x, SCALE)
}
/// venue formatting: 8 fractional digits
fn fmt8(x: i64) -> String {
    format!("{}.{:02}000000", x / 100, x % 100)
}

#[derive(Clone, Debug)]
struct Inst {
    sid: usize,
    key: u64,
    /// update id of deltas[0]
    base: u64,
    l: u64,
    stime: Option<i64>,
    /// index = update id - base
    deltas: Vec<(Vec<Lv>, Vec<Lv>)>,
}
#[derive(Clone, Debug)]
struct DMsg {
    sid: usize,
    U: u64,
    u: u64,
    pu: u64,
    e: i64,
    t: i64,
    net: bool,
}

// ---- the simulated exchange ------------------------------------------------------------------

fn book_at(inst: &Inst, n: u64) -> (Vec<Lv>, Vec<Lv>) {
    let mut b: BTreeMap<i64, i64> = BTreeMap::new();
    let mut a: BTreeMap<i64, i64> = BTreeMap::new();
    for (k, (db, da)) in inst.deltas.iter().enumerate() {
        if inst.base.saturating_add(k as u64) > n {
            break;
        }
        for (p, q) in db {
            if *q == 0 { b.remove(p); } else { b.insert(*p, *q); }
        }
        for (p, q) in da {
            if *q == 0 { a.remove(p); } else { a.insert(*p, *q); }
        }
    }
    (b.into_iter().collect(), a.into_iter().collect())
}

/// the changes of ids U..=u, concatenated or netted (one level per price: the last one)
fn payload(inst: Option<&Inst>, bid: bool, U: u64, u: u64, net: bool) -> Vec<Lv> {
    let Some(inst) = inst else { return vec![] };
    let mut v: Vec<Lv> = vec![];
    for (k, d) in inst.deltas.iter().enumerate() {
        let id = inst.base.saturating_add(k as u64);
        if U <= id && id <= u {
            v.extend(if bid { d.0.iter() } else { d.1.iter() });
        }
    }
    if net {
        let mut out = vec![];
        for (i, lv) in v.iter().enumerate() {
            if !v[i + 1..].iter().any(|x| x.0 == lv.0) {
                out.push(*lv);
            }
        }
        out
    } else {
        v
    }
}

// ---- the two rule sets behind one interface ---------------------------------------------------

trait Venue {
    const SPOT: bool;
    const NAME: &'static str;
    type T: Transformer<Error = DataError, Output = Ev, OutputIter = Vec<Result<Ev, DataError>>>
        + std::fmt::Debug;
    fn exchange() -> ExchangeId;
    fn init(map: Map<u64>, snaps: &[Ev]) -> Result<Self::T, DataError>;
    fn parse(json: &str) -> <Self::T as Transformer>::Input;
    /// direct `validate_sequence` on a sequencer built from public fields
    fn seq_call(s: (u64, u64, u64), U: u64, u: u64, pu: u64, empty: bool) -> (String, (u64, u64, u64));
}

fn err_class(e: &DataError, seq_ctor: &str) -> String {
    let t = b(e.is_terminal());
    match e {
        DataError::InvalidSequence {
            prev_last_update_id,
            first_update_id,
        } => format!("({seq_ctor} {prev_last_update_id} {first_update_id} {t})"),
        DataError::Socket(_) if seq_ctor == "OErrSeq" => format!("(OErrSocket {t})"),
        _ if seq_ctor == "OErrSeq" => format!("(OErrOther {t})"),
        _ => "RErrOther".to_string(),
    }
}

struct SpotV;
impl Venue for SpotV {
    const SPOT: bool = true;
    const NAME: &'static str = "spot";
    type T = BinanceSpotOrderBooksL2Transformer<u64>;
    fn exchange() -> ExchangeId {
        ExchangeId::BinanceSpot
    }
    fn init(map: Map<u64>, snaps: &[Ev]) -> Result<Self::T, DataError> {
        let (tx, _rx) = tokio::sync::mpsc::unbounded_channel::<WsMessage>();
        futures::executor::block_on(<Self::T as ExchangeTransformer<
            BinanceSpot,
            u64,
            OrderBooksL2,
        >>::init(map, snaps, tx))
    }
    fn parse(json: &str) -> BinanceSpotOrderBookL2Update {
        serde_json::from_str(json).expect("spot update json")
    }
    fn seq_call(s: (u64, u64, u64), U: u64, u: u64, _pu: u64, empty: bool) -> (String, (u64, u64, u64)) {
        let mut sq = BinanceSpotOrderBookL2Sequencer {
            updates_processed: s.0,
            last_update_id: s.1,
            prev_last_update_id: s.2,
        };
        let upd = BinanceSpotOrderBookL2Update {
            subscription_id: SubscriptionId::from("subscription_id"),
            time_exchange: Default::default(),
            first_update_id: U,
            last_update_id: u,
            bids: if empty { vec![] } else { vec![BinanceLevel { price: dec(9950), amount: dec(100) }] },
            asks: vec![],
        };
        let keep = upd.clone();
        let r = catch(AssertUnwindSafe(|| {
            let r = sq.validate_sequence(upd);
            (r, (sq.updates_processed, sq.last_update_id, sq.prev_last_update_id))
        }));
        match r {
            Err(_) => ("RPanic".into(), s),
            Ok((Ok(None), st)) => ("RDrop".into(), st),
            Ok((Ok(Some(x)), st)) => (format!("(ROk {})", b(x == keep)), st),
            Ok((Err(e), st)) => (err_class(&e, "RErrSeq"), st),
        }
    }
}

struct FutV;
impl Venue for FutV {
    const SPOT: bool = false;
    const NAME: &'static str = "fut";
    type T = BinanceFuturesUsdOrderBooksL2Transformer<u64>;
    fn exchange() -> ExchangeId {
        ExchangeId::BinanceFuturesUsd
    }
    fn init(map: Map<u64>, snaps: &[Ev]) -> Result<Self::T, DataError> {
        let (tx, _rx) = tokio::sync::mpsc::unbounded_channel::<WsMessage>();
        futures::executor::block_on(<Self::T as ExchangeTransformer<
            BinanceFuturesUsd,
            u64,
            OrderBooksL2,
        >>::init(map, snaps, tx))
    }
    fn parse(json: &str) -> BinanceFuturesOrderBookL2Update {
        serde_json::from_str(json).expect("futures update json")
    }
    fn seq_call(s: (u64, u64, u64), U: u64, u: u64, pu: u64, empty: bool) -> (String, (u64, u64, u64)) {
        let mut sq = BinanceFuturesUsdOrderBookL2Sequencer {
            updates_processed: s.0,
            last_update_id: s.1,
        };
        let upd = BinanceFuturesOrderBookL2Update {
            subscription_id: SubscriptionId::from("subscription_id"),
            time_exchange: Default::default(),
            time_engine: Default::default(),
            first_update_id: U,
            last_update_id: u,
            prev_last_update_id: pu,
            bids: if empty { vec![] } else { vec![BinanceLevel { price: dec(9950), amount: dec(100) }] },
            asks: vec![],
        };
        let keep = upd.clone();
        let r = catch(AssertUnwindSafe(|| {
            let r = sq.validate_sequence(upd);
            (r, (sq.updates_processed, sq.last_update_id, s.2))
        }));
        match r {
            Err(_) => ("RPanic".into(), s),
            Ok((Ok(None), st)) => ("RDrop".into(), st),
            Ok((Ok(Some(x)), st)) => (format!("(ROk {})", b(x == keep)), st),
            Ok((Err(e), st)) => (err_class(&e, "RErrSeq"), st),
        }
    }
}

// ---- observation helpers ----------------------------------------------------------------------

/// the sequencer of the instrument subscribed under `sid`, read from the transformer's derived
/// Debug output (its instrument map is private)
fn seq_from_debug(dbg: &str, sid: usize, spot: bool) -> Option<(u64, u64, u64)> {
    let needle = format!("SubscriptionId(\"@depth@100ms|{}\")", SYMBOLS[sid]);
    let at = dbg.find(&needle)?;
    let rest = &dbg[at..];
    let num = |field: &str| -> Option<u64> {
        let k = format!("{field}: ");
        // the field name must not be the tail of a longer one (prev_last_update_id)
        let mut from = 0;
        loop {
            let i = rest[from..].find(&k)? + from;
            let ok = i == 0 || !rest.as_bytes()[i - 1].is_ascii_alphanumeric() && rest.as_bytes()[i - 1] != b'_';
            if ok {
                let digits: String = rest[i + k.len()..]
                    .chars()
                    .take_while(|c| c.is_ascii_digit())
                    .collect();
                return digits.parse().ok();
            }
            from = i + k.len();
        }
    };
    let ups = num("updates_processed")?;
    let last = num("last_update_id")?;
    let prev = if spot { num("prev_last_update_id")? } else { 0 };
    Some((ups, last, prev))
}

fn coq_seq(s: (u64, u64, u64)) -> String {
    format!("(mkSeq {} {} {})", s.0, s.1, s.2)
}
fn coq_lv(l: &[Lv]) -> String {
    list(&l.iter().map(|(p, a)| format!("L {p} {a}")).collect::<Vec<_>>())
}
fn coq_levels(ls: &[Level]) -> String {
    list(
        &ls.iter()
            .map(|l| format!("L {} {}", dec_scaled(l.price, SCALE), dec_scaled(l.amount, SCALE)))
            .collect::<Vec<_>>(),
    )
}
fn coq_optz(x: Option<i64>) -> String {
    match x {
        Some(v) => format!("(Some {v}%Z)"),
        None => "None".into(),
    }
}
fn coq_book(bk: &OrderBook) -> String {
    format!(
        "(mkBook {} {} {} {})",
        bk.sequence,
        coq_optz(bk.time_engine.map(|t| t.timestamp_millis())),
        coq_levels(bk.bids().levels()),
        coq_levels(bk.asks().levels())
    )
}
fn exch_code(e: ExchangeId) -> u64 {
    match e {
        ExchangeId::BinanceSpot => 0,
        ExchangeId::BinanceFuturesUsd => 1,
        _ => 9,
    }
}

fn snapshot_event<X: Venue>(inst: &Inst) -> Ev {
    let (bids, asks) = book_at(inst, inst.l);
    let lv = |v: &[Lv]| -> Vec<BinanceLevel> {
        // unsorted on purpose: the snapshot is sorted by OrderBook::new
        v.iter().rev().map(|(p, a)| BinanceLevel { price: dec(*p), amount: dec(*a) }).collect()
    };
    MarketEvent::from((
        X::exchange(),
        inst.key,
        BinanceOrderBookL2Snapshot {
            last_update_id: inst.l,
            time_exchange: None,
            time_engine: inst.stime.map(|t| Utc.timestamp_millis_opt(t).unwrap()),
            bids: lv(&bids),
            asks: lv(&asks),
        },
    ))
}

fn msg_json<X: Venue>(insts: &[Inst], m: &DMsg) -> String {
    let inst = insts.iter().find(|i| i.sid == m.sid);
    let lv = |bid: bool| -> Value {
        Value::Array(
            payload(inst, bid, m.U, m.u, m.net)
                .iter()
                .map(|(p, a)| json!([fmt8(*p), fmt8(*a)]))
                .collect(),
        )
    };
    // every field the connector must NOT use carries a decoy that differs from the used ones:
    // another instrument's stream name / pair, a bogus lastUpdateId, nested ids; spot payloads
    // have no T / pu: there they are decoys too (serde ignores unknown fields)
    let other = SYMBOLS[(m.sid + 1) % N_SUB];
    let mut j = json!({"stream": format!("{}@depth@100ms", other.to_lowercase()), "ps": other,
                       "e": "depthUpdate", "E": m.e, "s": SYMBOLS[m.sid], "U": m.U, "u": m.u,
                       "lastUpdateId": m.u.wrapping_add(7), "firstUpdateId": m.U.wrapping_sub(3),
                       "data": {"U": 1, "u": 2, "pu": 0, "s": other},
                       "b": lv(true), "a": lv(false)});
    j["T"] = json!(m.t);
    j["pu"] = json!(m.pu);
    j.to_string()
}

// ---- running a stream case ----------------------------------------------------------------------

struct Ran {
    coq: String,
    tags: Vec<String>,
    nontrivial: bool,
}

fn run_stream<X: Venue>(insts: &[Inst], msgs: &[DMsg], sord: &[usize]) -> Ran {
    let map: Map<u64> = Map(insts
        .iter()
        .map(|i| (sub_id(i.sid), i.key))
        .collect::<FnvHashMap<_, _>>());
    let snaps: Vec<Ev> = insts.iter().map(snapshot_event::<X>).collect();
    // the snapshot slice handed to init is in its own order (a permutation of the instruments)
    let init_snaps: Vec<Ev> = if sord.len() == snaps.len() && {
        let mut c = sord.to_vec();
        c.sort();
        c == (0..snaps.len()).collect::<Vec<_>>()
    } {
        sord.iter().map(|k| snaps[*k].clone()).collect()
    } else {
        snaps.clone()
    };
    let mut tr = X::init(map, &init_snaps).expect("init");
    let mut books: Vec<(u64, OrderBook)> = insts
        .iter()
        .zip(snaps.iter())
        .map(|(i, s)| {
            let mut bk = OrderBook::default();
            bk.update(s.kind.clone());
            (i.key, bk)
        })
        .collect();
    let seqs = |tr: &X::T| -> Vec<(u64, u64, u64)> {
        let d = format!("{:?}", tr);
        insts
            .iter()
            .map(|i| seq_from_debug(&d, i.sid, X::SPOT).expect("sequencer in Debug output"))
            .collect()
    };
    let mut tags = vec![];
    let mut obs = vec![];
    let mut nontrivial = false;
    let mut before = seqs(&tr);
    for m in msgs {
        let input = X::parse(&msg_json::<X>(insts, m));
        let out = catch(AssertUnwindSafe(|| tr.transform(input)));
        let mut book_obs: Option<String> = None;
        let phase = match insts.iter().position(|i| i.sid == m.sid) {
            None => "unknown",
            Some(k) if before[k].0 == 0 => "first",
            Some(_) => "next",
        };
        let (cls, tag) = match out {
            Err(_) => ("OPanic".to_string(), "panic"),
            Ok(v) if v.is_empty() => ("ONone".to_string(), "drop"),
            Ok(v) if v.len() > 1 => (format!("(OMany {})", v.len()), "many"),
            Ok(mut v) => match v.pop().unwrap() {
                Err(e) => (
                    err_class(&e, "OErrSeq"),
                    if matches!(e, DataError::InvalidSequence { .. }) { "err" } else { "unident" },
                ),
                Ok(ev) => {
                    let (is_update, sq, tm, nlev) = match &ev.kind {
                        OrderBookEvent::Update(ob) => (true, ob.sequence, ob.time_engine,
                            ob.bids().levels().len() + ob.asks().levels().len()),
                        OrderBookEvent::Snapshot(ob) => (false, ob.sequence, ob.time_engine,
                            ob.bids().levels().len() + ob.asks().levels().len()),
                    };
                    if nlev > 0 {
                        nontrivial = true;
                    }
                    let cls = format!(
                        "(OEvent {} {} {} {} {} {})",
                        ev.instrument,
                        exch_code(ev.exchange),
                        b(is_update),
                        ev.time_exchange.timestamp_millis(),
                        sq,
                        coq_optz(tm.map(|t| t.timestamp_millis()))
                    );
                    if let Some((_, bk)) = books.iter_mut().find(|(k, _)| *k == ev.instrument) {
                        bk.update(ev.kind);
                        book_obs = Some(coq_book(bk));
                    }
                    (cls, "ok")
                }
            },
        };
        tags.push(format!("{}:{}:{}", X::NAME, phase, tag));
        let after = seqs(&tr);
        obs.push(format!(
            "(mkO {} {} {})",
            cls,
            list(&after.iter().map(|s| coq_seq(*s)).collect::<Vec<_>>()),
            opt(book_obs)
        ));
        before = after;
    }
    let coq_insts: Vec<String> = insts
        .iter()
        .map(|i| {
            // the levels handed to init / the book, in the order they were handed over
            let (bids, asks) = book_at(i, i.l);
            let rev = |v: &[Lv]| -> Vec<Lv> { v.iter().rev().cloned().collect() };
            format!(
                "(mkI {} {} {} {} {} {} {} {})",
                i.sid,
                i.key,
                i.base,
                i.l,
                coq_optz(i.stime),
                coq_lv(&rev(&bids)),
                coq_lv(&rev(&asks)),
                list(
                    &i.deltas
                        .iter()
                        .map(|(db, da)| pair(&coq_lv(db), &coq_lv(da)))
                        .collect::<Vec<_>>()
                )
            )
        })
        .collect();
    let coq_msgs: Vec<String> = msgs
        .iter()
        .map(|m| {
            format!(
                "(mkD {} {} {} {} {} {} {})",
                m.sid, m.U, m.u, m.pu, m.e, m.t, b(m.net)
            )
        })
        .collect();
    let coq = format!(
        "(CStream {} {} {} {} {})",
        if X::SPOT { "Spot" } else { "Fut" },
        list(&coq_insts),
        list(&coq_msgs),
        list(&obs),
        list(&books.iter().map(|(_, bk)| coq_book(bk)).collect::<Vec<_>>())
    );
    Ran { coq, tags, nontrivial }
}

fn run_seq<X: Venue>(s: (u64, u64, u64), U: u64, u: u64, pu: u64, empty: bool) -> Ran {
    let (r, s2) = X::seq_call(s, U, u, pu, empty);
    let phase = if s.0 == 0 { "first" } else { "next" };
    let tag = if r.starts_with("(ROk") { "ok" } else if r == "RDrop" { "drop" } else { "err" };
    Ran {
        coq: format!(
            "(CSeq {} {} {} {} {} {} {})",
            if X::SPOT { "Spot" } else { "Fut" },
            coq_seq(s),
            U,
            u,
            pu,
            r,
            coq_seq(s2)
        ),
        tags: vec![format!("{}:seq:{}:{}{}", X::NAME, phase, tag, if empty { ":empty" } else { "" })],
        nontrivial: s2 != s,
    }
}

/// `init` with the given (sid, key) map and (key, is_snapshot, sequence) events
fn run_init<X: Venue>(imap: &[(usize, u64)], snaps: &[(u64, bool, u64)]) -> Ran {
    let map: Map<u64> = Map(imap.iter().map(|(s, k)| (sub_id(*s), *k)).collect::<FnvHashMap<_, _>>());
    let evs: Vec<Ev> = snaps
        .iter()
        .map(|(k, is_snap, sq)| {
            let ob = OrderBook::new(*sq, None, Vec::<Level>::new(), Vec::<Level>::new());
            MarketEvent {
                time_exchange: Utc.timestamp_millis_opt(T0).unwrap(),
                time_received: Utc.timestamp_millis_opt(T0).unwrap(),
                exchange: X::exchange(),
                instrument: *k,
                kind: if *is_snap { OrderBookEvent::Snapshot(ob) } else { OrderBookEvent::Update(ob) },
            }
        })
        .collect();
    let (r, seqs, tag) = match X::init(map, &evs) {
        Ok(tr) => {
            let d = format!("{:?}", tr);
            let seqs: Vec<String> = imap
                .iter()
                .map(|(s, _)| coq_seq(seq_from_debug(&d, *s, X::SPOT).expect("sequencer")))
                .collect();
            ("IOk".to_string(), seqs, "ok")
        }
        Err(DataError::InitialSnapshotMissing(id)) => {
            let sid = (0..SYMBOLS.len()).find(|s| sub_id(*s) == id).map(|s| s as u64).unwrap_or(99);
            (format!("(IMissing {sid})"), vec![], "missing")
        }
        Err(DataError::InitialSnapshotInvalid(_)) => ("IInvalid".to_string(), vec![], "invalid"),
        Err(_) => ("IOther".to_string(), vec![], "other"),
    };
    Ran {
        coq: format!(
            "(CInit {} {} {} {} {})",
            if X::SPOT { "Spot" } else { "Fut" },
            list(&imap.iter().map(|(s, k)| format!("({s}%N, {k}%N)")).collect::<Vec<_>>()),
            list(&snaps.iter().map(|(k, sn, sq)| format!("({k}%N, ({}, {sq}%N))", b(*sn))).collect::<Vec<_>>()),
            r,
            list(&seqs)
        ),
        tags: vec![format!("{}:init:{}", X::NAME, tag)],
        nontrivial: true,
    }
}

// ---- JSON input <-> structures ------------------------------------------------------------------

fn lv_json(l: &[Lv]) -> Value {
    Value::Array(l.iter().map(|(p, a)| Value::String(format!("{p}:{a}"))).collect())
}
fn lv_from(v: &Value) -> Option<Vec<Lv>> {
    v.as_array()?
        .iter()
        .map(|x| {
            let s = x.as_str()?;
            let (p, a) = s.split_once(':')?;
            Some((p.parse().ok()?, a.parse().ok()?))
        })
        .collect()
}
fn stream_json(fut: bool, insts: &[Inst], msgs: &[DMsg], sord: &[usize]) -> Value {
    json!({
        "kind": "stream", "venue": if fut { "fut" } else { "spot" }, "sord": sord,
        "insts": insts.iter().map(|i| json!({
            "sid": i.sid, "key": i.key, "base": i.base, "L": i.l, "stime": i.stime,
            "deltas": i.deltas.iter().map(|(db, da)| json!({"b": lv_json(db), "a": lv_json(da)})).collect::<Vec<_>>()
        })).collect::<Vec<_>>(),
        "msgs": msgs.iter().map(|m| json!({"sid": m.sid, "U": m.U, "u": m.u, "pu": m.pu, "E": m.e, "T": m.t, "net": m.net})).collect::<Vec<_>>(),
    })
}
fn stream_from(v: &Value) -> Option<(bool, Vec<Inst>, Vec<DMsg>, Vec<usize>)> {
    let fut = v["venue"].as_str()? == "fut";
    let insts = v["insts"]
        .as_array()?
        .iter()
        .map(|i| {
            Some(Inst {
                sid: i["sid"].as_u64()? as usize,
                key: i["key"].as_u64()?,
                base: i["base"].as_u64().unwrap_or(0),
                l: i["L"].as_u64()?,
                stime: i["stime"].as_i64(),
                deltas: i["deltas"]
                    .as_array()?
                    .iter()
                    .map(|d| Some((lv_from(&d["b"])?, lv_from(&d["a"])?)))
                    .collect::<Option<Vec<_>>>()?,
            })
        })
        .collect::<Option<Vec<_>>>()?;
    let msgs = v["msgs"]
        .as_array()?
        .iter()
        .map(|m| {
            Some(DMsg {
                sid: m["sid"].as_u64()? as usize,
                U: m["U"].as_u64()?,
                u: m["u"].as_u64()?,
                pu: m["pu"].as_u64()?,
                e: m["E"].as_i64()?,
                t: m["T"].as_i64()?,
                net: m["net"].as_bool()?,
            })
        })
        .collect::<Option<Vec<_>>>()?;
    if insts.iter().any(|i| i.sid >= N_SUB || i.base > u64::MAX - 2 - i.deltas.len() as u64)
        || msgs.iter().any(|m| m.sid >= SYMBOLS.len() || m.u.saturating_sub(m.U) > 64)
    {
        return None;
    }
    let sord: Vec<usize> = v["sord"]
        .as_array()
        .map(|a| a.iter().filter_map(|x| x.as_u64().map(|k| k as usize)).collect())
        .unwrap_or_default();
    Some((fut, insts, msgs, sord))
}

/// the implementation panicked (or could not be driven) outside the individually observed calls
fn crashed(what: u64) -> Ran {
    Ran { coq: format!("(CCrash {what})"), tags: vec!["crash".into()], nontrivial: false }
}
fn emit(em: &mut Emitter, stream: &'static str, input: Value, r: Ran) {
    em.emit(Case { stream, input, coq: r.coq, nontrivial: r.nontrivial, tags: r.tags });
}
fn emit_stream(em: &mut Emitter, stream: &'static str, fut: bool, insts: &[Inst], msgs: &[DMsg], sord: &[usize], extra: &[String]) {
    let mut r = catch(AssertUnwindSafe(|| {
        if fut { run_stream::<FutV>(insts, msgs, sord) } else { run_stream::<SpotV>(insts, msgs, sord) }
    }))
    .unwrap_or_else(|_| crashed(1));
    r.tags.extend(extra.iter().cloned());
    emit(em, stream, stream_json(fut, insts, msgs, sord), r);
}
fn emit_seq(em: &mut Emitter, stream: &'static str, fut: bool, s: (u64, u64, u64), U: u64, u: u64, pu: u64, empty: bool) {
    let r = catch(AssertUnwindSafe(|| {
        if fut { run_seq::<FutV>(s, U, u, pu, empty) } else { run_seq::<SpotV>(s, U, u, pu, empty) }
    }))
    .unwrap_or_else(|_| crashed(2));
    emit(em, stream, json!({"kind": "seq", "venue": if fut {"fut"} else {"spot"},
        "s": [s.0, s.1, s.2], "U": U, "u": u, "pu": pu, "empty": empty}), r);
}
fn emit_init(em: &mut Emitter, stream: &'static str, fut: bool, imap: &[(usize, u64)], snaps: &[(u64, bool, u64)]) {
    let r = catch(AssertUnwindSafe(|| {
        if fut { run_init::<FutV>(imap, snaps) } else { run_init::<SpotV>(imap, snaps) }
    }))
    .unwrap_or_else(|_| crashed(3));
    emit(em, stream, json!({"kind": "init", "venue": if fut {"fut"} else {"spot"},
        "imap": imap.iter().map(|(s, k)| json!({"sid": s, "key": k})).collect::<Vec<_>>(),
        "snaps": snaps.iter().map(|(k, sn, sq)| json!({"key": k, "snapshot": sn, "seq": sq})).collect::<Vec<_>>()}), r);
}

// ---- generators -----------------------------------------------------------------------------------

/// exhaustive single-call table: state class (first / next) x every relative position of
/// U, u (and pu for futures) around last_update_id, for last_update_id = 10, = 0 and
/// = 2^64 - 4 (ids up to the stated bound 2^64 - 2), each with a non-empty and an EMPTY update
fn table(em: &mut Emitter) {
    const M: u64 = u64::MAX - 3;
    for fut in [false, true] {
        for (last, prev, lo, hi) in [(10u64, 4u64, 8u64, 13u64), (0, 0, 0, 3), (M, M - 6, M - 2, M + 2)] {
            for ups in [0u64, 1, 7] {
                for U in lo..=hi {
                    for u in lo..=hi {
                        let pus: Vec<u64> = if fut { (lo..hi).collect() } else { vec![last.saturating_sub(3)] };
                        for pu in pus {
                            for empty in [false, true] {
                                emit_seq(em, "table", fut, (ups, last, prev), U, u, pu, empty);
                            }
                        }
                    }
                }
            }
        }
        // init: happy path, first matching snapshot wins, missing snapshot, update instead of
        // snapshot, empty map, equal snapshot ids, ids 0 and 2^64 - 2
        emit_init(em, "table", fut, &[(0, 10), (1, 20)], &[(20, true, 7), (10, true, 5)]);
        emit_init(em, "table", fut, &[(0, 10), (1, 20)], &[(10, true, 5), (10, true, 9), (20, true, 0)]);
        emit_init(em, "table", fut, &[(0, 10), (1, 20)], &[(10, true, 5)]);
        emit_init(em, "table", fut, &[(0, 10), (1, 20)], &[(20, false, 7), (10, true, 5)]);
        emit_init(em, "table", fut, &[(2, 30)], &[]);
        emit_init(em, "table", fut, &[], &[(10, true, 5)]);
        emit_init(em, "table", fut, &[(0, 10), (3, 20)], &[(20, true, 6), (10, true, 6)]);
        emit_init(em, "table", fut, &[(1, 10), (0, 20)], &[(20, true, u64::MAX - 1), (10, true, 0)]);
        // three and four instruments (prefix-sharing symbols), every order of the snapshot slice:
        // the hash map's iteration order must not matter
        let imap3 = [(0usize, 10u64), (1, 20), (3, 30)];
        let snaps3 = [(10u64, true, 5u64), (20, true, 7), (30, true, 9)];
        for perm in [[0usize, 1, 2], [0, 2, 1], [1, 0, 2], [1, 2, 0], [2, 0, 1], [2, 1, 0]] {
            let sn: Vec<(u64, bool, u64)> = perm.iter().map(|k| snaps3[*k]).collect();
            emit_init(em, "table", fut, &imap3, &sn);
        }
        let imap4 = [(3usize, 40u64), (2, 30), (1, 20), (0, 10)];
        emit_init(em, "table", fut, &imap4, &[(10, true, 1), (20, true, 2), (30, true, 3), (40, true, 4)]);
        emit_init(em, "table", fut, &imap4, &[(30, true, 3), (10, true, 1), (40, true, 4), (20, true, 2)]);
    }
}

struct GenInst {
    inst: Inst,
    /// the exchange's genuine message stream (U, u, pu)
    ranges: Vec<(u64, u64, u64)>,
}

fn gen_levels(r: &mut Rng, grid: &[i64; 4]) -> Vec<Lv> {
    let k = *r.pick(&[0u64, 1, 1, 2, 2, 3]);
    (0..k)
        .map(|_| {
            let p = *r.pick(grid);
            let a = if r.chance(3, 10) { 0 } else { 50 * r.range(1, 8) };
            (p, a)
        })
        .collect()
}

/// is the genuine message (U, u) one without any level change (both lists empty)?
fn is_quiet(inst: &Inst, U: u64, u: u64) -> bool {
    payload(Some(inst), true, U, u, false).is_empty() && payload(Some(inst), false, U, u, false).is_empty()
}

/// `base`: update id of the first (change-free) id of the simulated exchange; `force_l`: make
/// the snapshot id this one if it is within the exchange's ids (two instruments whose snapshots
/// carry the same lastUpdateId)
fn gen_inst(r: &mut Rng, fut: bool, sid: usize, key: u64, n_ids: u64, base_kind: u64, force_l: Option<u64>) -> GenInst {
    // local ids first
    let mut ranges = vec![];
    let mut cur = 1u64;
    let mut prev_u = 0u64;
    while cur <= n_ids {
        let gap = if fut && r.chance(1, 4) { 1 + r.below(2) } else { 0 };
        let U = cur + gap;
        let u = U + *r.pick(&[0u64, 0, 0, 1, 1, 2]);
        // on spot the previous-id field does not exist: a decoy unrelated to the chain
        ranges.push((U, u, if fut { prev_u } else { r.below(u + 3) }));
        prev_u = u;
        cur = u + 1;
    }
    let mut deltas = vec![(vec![], vec![]); (prev_u + 1) as usize];
    for (U, u, _) in &ranges {
        // a quarter of the messages are "quiet": no level change at all (venues do send them)
        let quiet = r.chance(1, 4);
        for id in *U..=*u {
            if !quiet {
                deltas[id as usize] = (gen_levels(r, &BID_GRID), gen_levels(r, &ASK_GRID));
            }
        }
    }
    let base = match base_kind {
        0 => u64::MAX - 1 - prev_u - 8 - r.below(3), // ids up to within a dozen of 2^64 - 2
        1 => 22_611_425_143 + r.below(1000),         // a realistic magnitude
        _ => 0,                                      // ids from 0: snapshot id 0 occurs
    };
    // snapshot point: at a boundary of some message of the first two thirds of the stream
    let j = r.below((ranges.len() as u64 * 2 / 3).max(1)) as usize;
    let (U, u, _) = ranges[j];
    let mut l = base + (*r.pick(&[U.saturating_sub(2), U - 1, U, u, u, u + 1])).min(prev_u);
    if let Some(f) = force_l {
        if base <= f && f <= base + prev_u {
            l = f;
        }
    }
    let stime = if fut && r.chance(3, 4) { Some(T0 - 1 - r.below(50) as i64) } else { None };
    let ranges = ranges
        .into_iter()
        .map(|(U, u, pu)| (base + U, base + u, if fut { base + pu } else { pu }))
        .collect();
    GenInst { inst: Inst { sid, key, base, l, stime, deltas }, ranges }
}

/// one instrument's delivery: a start point and a few perturbations of the genuine stream
fn gen_delivery(r: &mut Rng, fut: bool, g: &GenInst, n_perturb: u64, wild: bool, tags: &mut Vec<String>) -> Vec<DMsg> {
    let l = g.inst.l;
    let exact = g
        .ranges
        .iter()
        .position(|(_, u, _)| if fut { *u >= l } else { *u > l })
        .unwrap_or(g.ranges.len());
    // a quiet message after the one that reaches the snapshot: starting there is starting late
    let quiet_late = (exact + 1..g.ranges.len()).find(|k| is_quiet(&g.inst, g.ranges[*k].0, g.ranges[*k].1));
    let start = match r.below(9) {
        0..=3 => { tags.push("start:early".into()); 0 }
        4 | 5 => { tags.push("start:exact".into()); exact }
        6 => { tags.push("start:late".into()); (exact + 1).min(g.ranges.len()) }
        7 => match quiet_late {
            Some(k) => { tags.push("start:late_at_empty".into()); k }
            None => { tags.push("start:exact".into()); exact }
        },
        _ => { tags.push("start:random".into()); r.below(g.ranges.len() as u64 + 1) as usize }
    };
    let mk = |r: &mut Rng, (U, u, pu): (u64, u64, u64)| -> DMsg {
        let nlev = payload(Some(&g.inst), true, U, u, false).len().max(payload(Some(&g.inst), false, U, u, false).len());
        // exchange time E and engine time T are unrelated to the ids and to each other
        let e = T0 + r.below(1_000_000) as i64;
        let t = T0 + 2_000_000 + r.below(1_000_000) as i64;
        DMsg { sid: g.inst.sid, U, u, pu, e, t, net: nlev > 8 || r.chance(3, 4) }
    };
    let mut d: Vec<DMsg> = g.ranges[start..].iter().map(|x| mk(r, *x)).collect();
    if n_perturb == 0 {
        tags.push("perturb:none".into());
    }
    let quiet_at = |d: &Vec<DMsg>, k: usize| k < d.len() && d[k].U <= d[k].u && is_quiet(&g.inst, d[k].U, d[k].u);
    for _ in 0..n_perturb {
        if d.is_empty() {
            break;
        }
        let i = r.below(d.len() as u64) as usize;
        match r.below(if wild { 8 } else { 6 }) {
            0 => { tags.push("perturb:drop".into()); d.remove(i); }
            1 => {
                tags.push("perturb:dup".into());
                let at = (i + 1 + r.below(3) as usize).min(d.len());
                let c = d[i].clone();
                d.insert(at, c);
            }
            2 => {
                tags.push("perturb:swap".into());
                if i + 1 < d.len() { d.swap(i, i + 1); }
            }
            3 => {
                tags.push("perturb:replay".into());
                let j = r.below(i as u64 + 1) as usize;
                let pre: Vec<DMsg> = d[..=j].to_vec();
                for (k, m) in pre.into_iter().enumerate() {
                    d.insert(i + 1 + k, m);
                }
            }
            4 => {
                // the same message three times (adjacent, or the copies spread out)
                tags.push("perturb:triple".into());
                let c = d[i].clone();
                let at1 = (i + 1 + r.below(2) as usize).min(d.len());
                d.insert(at1, c.clone());
                let at2 = (at1 + 1 + r.below(3) as usize).min(d.len());
                d.insert(at2, c);
            }
            5 => {
                // lose the message right before a quiet (empty) one: the first message after
                // the gap carries no levels
                let cands: Vec<usize> = (0..d.len().saturating_sub(1)).filter(|k| quiet_at(&d, k + 1) && !quiet_at(&d, *k)).collect();
                if cands.is_empty() {
                    tags.push("perturb:drop".into());
                    d.remove(i);
                } else {
                    tags.push("perturb:drop_before_empty".into());
                    let k = *r.pick(&cands);
                    d.remove(k);
                }
            }
            _ => {
                // a message that is not the exchange's: arbitrary ids near position i
                tags.push("perturb:wild".into());
                let base = d[i].U;
                let U = (base + r.below(4)).saturating_sub(1);
                let u = (U + r.below(4)).saturating_sub(1);
                let pu = (U + r.below(3)).saturating_sub(2);
                let e = T0 + r.below(1_000_000) as i64;
                d.insert(i, DMsg { sid: g.inst.sid, U, u, pu, e, t: e + 2_000_000, net: r.chance(1, 2) });
            }
        }
    }
    d
}

fn gen_stream(r: &mut Rng, fut: bool, max_ids: u64, adversarial: bool) -> (Vec<Inst>, Vec<DMsg>, Vec<usize>, Vec<String>) {
    let n_inst = *r.pick(&[1usize, 2, 2, 3, 3, 3, 4]);
    let mut sids = [0usize, 1, 2, 3];
    r.shuffle(&mut sids);
    let mut tags = vec![format!("instruments:{n_inst}")];
    let mut gens: Vec<GenInst> = vec![];
    for k in 0..n_inst {
        let n_ids = 4 + r.below(max_ids - 3);
        let key = 10 * (1 + ((k as u64 + r.below(3)) % 3)) + k as u64;
        // mostly ids from 0 (compact), some at a realistic magnitude, some just below 2^64 - 2
        let base_kind = *r.pick(&[2u64, 2, 2, 2, 2, 1, 1, 0]);
        // now and then two instruments whose snapshots carry the same lastUpdateId
        let force_l = if k > 0 && r.chance(1, 3) { Some(gens[0].inst.l) } else { None };
        let g = gen_inst(r, fut, sids[k], key, n_ids, if force_l.is_some() { 3 } else { base_kind }, force_l);
        if k > 0 && g.inst.l == gens[0].inst.l {
            tags.push("equal_snapshot_ids".into());
        }
        if g.inst.l == 0 { tags.push("snapshot_id:0".into()); }
        if g.inst.base > u64::MAX / 2 { tags.push("ids:near_u64_max".into()); }
        gens.push(g);
    }
    let mut queues: Vec<Vec<DMsg>> = gens
        .iter()
        .map(|g| {
            let np = if adversarial { 1 + r.below(4) } else { *r.pick(&[0u64, 0, 1, 1, 2]) };
            let mut q = gen_delivery(r, fut, g, np, adversarial, &mut tags);
            q.reverse();
            q
        })
        .collect();
    // the ids nobody subscribed to in this case (always includes the lower-case spelling)
    let unknown: Vec<usize> = (0..SYMBOLS.len()).filter(|s| !gens.iter().any(|g| g.inst.sid == *s)).collect();
    // interleave, each instrument's order preserved; now and then a message for a
    // subscription id nobody subscribed to
    let mut msgs = vec![];
    loop {
        let live: Vec<usize> = (0..queues.len()).filter(|k| !queues[*k].is_empty()).collect();
        if live.is_empty() {
            break;
        }
        if r.chance(1, if adversarial { 12 } else { 40 }) {
            // ids in the range of a subscribed instrument, so that mis-routing would matter
            let near = gens[r.below(gens.len() as u64) as usize].inst.l;
            let U = near.saturating_add(r.below(3)).min(u64::MAX - 4);
            let e = T0 + r.below(1_000_000) as i64;
            msgs.push(DMsg { sid: *r.pick(&unknown), U, u: U + r.below(3), pu: U.saturating_sub(1), e, t: e + 2_000_000, net: true });
            continue;
        }
        let k = *r.pick(&live);
        msgs.push(queues[k].pop().unwrap());
    }
    // the snapshot slice handed to init: its own order
    let mut sord: Vec<usize> = (0..n_inst).collect();
    r.shuffle(&mut sord);
    (gens.into_iter().map(|g| g.inst).collect(), msgs, sord, tags)
}

fn main() {
    quiet_panics();
    let args = parse_args();
    let mut em = Emitter::create(&args.out);
    match args.mode.as_str() {
        "gen" => {
            let mut r = Rng::new(args.seed);
            let (n_rand, n_adv, max_ids) = if args.tier == "thorough" { (2500, 1200, 40) } else { (200, 100, 22) };
            // development aid: VERIF_C06_NOTABLE=1 leaves the exhaustive table out, to see what the
            // stream cases detect on their own
            if std::env::var("VERIF_C06_NOTABLE").is_err() {
                table(&mut em);
            }
            for fut in [false, true] {
                for _ in 0..n_rand {
                    let (insts, msgs, sord, tags) = gen_stream(&mut r, fut, max_ids, false);
                    emit_stream(&mut em, "random", fut, &insts, &msgs, &sord, &tags);
                }
                for _ in 0..n_adv {
                    let (insts, msgs, sord, tags) = gen_stream(&mut r, fut, max_ids, true);
                    emit_stream(&mut em, "adversarial", fut, &insts, &msgs, &sord, &tags);
                }
            }
        }
        "exec" => {
            for (inp, stream) in read_inputs(args.input.as_deref().expect("--in")) {
                let st = stream_static(&stream);
                let fut = inp["venue"] == "fut";
                // malformed inputs (the shrinker deletes array elements blindly) are skipped
                let _ = catch(AssertUnwindSafe(|| match inp["kind"].as_str() {
                    Some("stream") => {
                        if let Some((fut, insts, msgs, sord)) = stream_from(&inp) {
                            let mut keys: Vec<u64> = insts.iter().map(|i| i.key).collect();
                            let mut sids: Vec<usize> = insts.iter().map(|i| i.sid).collect();
                            keys.sort(); keys.dedup(); sids.sort(); sids.dedup();
                            if keys.len() == insts.len() && sids.len() == insts.len()
                                && insts.iter().all(|i| i.l.saturating_sub(i.base) <= i.deltas.len() as u64 + 2) {
                                emit_stream(&mut em, st, fut, &insts, &msgs, &sord, &[]);
                            }
                        }
                    }
                    Some("seq") => {
                        let s = &inp["s"];
                        if let (Some(a), Some(b_), Some(c), Some(U), Some(u), Some(pu)) = (
                            s[0].as_u64(), s[1].as_u64(), s[2].as_u64(),
                            inp["U"].as_u64(), inp["u"].as_u64(), inp["pu"].as_u64(),
                        ) {
                            emit_seq(&mut em, st, fut, (a, b_, c), U, u, pu, inp["empty"].as_bool().unwrap_or(false));
                        }
                    }
                    Some("init") => {
                        let imap: Option<Vec<(usize, u64)>> = inp["imap"].as_array().and_then(|a| {
                            a.iter().map(|x| Some((x["sid"].as_u64()? as usize, x["key"].as_u64()?))).collect()
                        });
                        let snaps: Option<Vec<(u64, bool, u64)>> = inp["snaps"].as_array().and_then(|a| {
                            a.iter().map(|x| Some((x["key"].as_u64()?, x["snapshot"].as_bool()?, x["seq"].as_u64()?))).collect()
                        });
                        if let (Some(imap), Some(snaps)) = (imap, snaps) {
                            if imap.iter().all(|(s, _)| *s < SYMBOLS.len()) {
                                emit_init(&mut em, st, fut, &imap, &snaps);
                            }
                        }
                    }
                    _ => {}
                }));
            }
        }
        m => panic!("unknown mode {m}"),
    }
    em.finish();
}
