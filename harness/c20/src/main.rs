//! C20 correspondence harness: drives the real `barter::backtest::{backtest, run_backtests}` with
//! `MarketDataInMemory` over synthetic datasets, a recording `GlobalData` / `InstrumentDataState`
//! and a count-driven (timing independent) strategy; runs every backtest alone and concurrently
//! on multi-thread runtimes with 1, 2 and 8 workers and prints, as Coq terms (Corr/C20.v), the
//! dataset, what each engine processed, and fingerprints of fills / final positions / balances /
//! realised PnL / summary for the alone-vs-concurrent comparison.
//!
//! Two feeding modes:
//!  * plain  — `MarketDataInMemory` exactly as a user passes it. Only schedule independent facts are
//!    judged (the market events the engine processed, the summary being that engine's own), since
//!    whether a mock-exchange fill reaches the engine before `Shutdown` is a race in this mode.
//!  * paced  — a `BacktestMarketData` wrapper around `MarketDataInMemory::stream()` that hands the
//!    next event to the forwarder only once the engine has processed the previous one together
//!    with every execution response it caused. Then fills, positions, balances and PnL are
//!    functions of (dataset, strategy parameters) only and are compared alone vs concurrent.
use barter::{
    backtest::{
        BacktestArgsConstant, BacktestArgsDynamic, backtest,
        market_data::{BacktestMarketData, MarketDataInMemory},
        run_backtests,
        summary::BacktestSummary,
    },
    engine::{
        Engine, Processor,
        clock::HistoricalClock,
        execution_tx::MultiExchangeTxMap,
        state::{
            EngineState,
            asset::AssetState,
            builder::EngineStateBuilder,
            instrument::{
                data::{DefaultInstrumentMarketData, InstrumentDataState},
                filter::InstrumentFilter,
            },
            order::{Orders, in_flight_recorder::InFlightRequestRecorder},
            position::PositionManager,
            trading::TradingState,
        },
    },
    error::BarterError,
    risk::DefaultRiskManager,
    statistic::{summary::instrument::TearSheetGenerator, time::Daily},
    strategy::{
        algo::AlgoStrategy,
        close_positions::{ClosePositionsStrategy, close_open_positions_with_market_orders},
        on_disconnect::OnDisconnectStrategy,
        on_trading_disabled::OnTradingDisabled,
    },
    system::config::{ExecutionConfig, InstrumentConfig},
};
use barter_data::{
    books::{Level, OrderBook},
    event::{DataKind, MarketEvent},
    streams::consumer::MarketStreamEvent,
    subscription::{
        book::{OrderBookEvent, OrderBookL1},
        candle::Candle,
        liquidation::Liquidation,
        trade::PublicTrade,
    },
};
use barter_execution::{
    AccountEvent, AccountEventKind,
    order::{
        OrderKey, OrderKind, TimeInForce,
        id::{ClientOrderId, StrategyId},
        request::{OrderRequestCancel, OrderRequestOpen, RequestOpen},
        state::{InactiveOrderState, OrderState},
    },
};
use barter_instrument::{
    Side,
    asset::AssetIndex,
    exchange::{ExchangeId, ExchangeIndex},
    index::IndexedInstruments,
    instrument::InstrumentIndex,
};
use chrono::{DateTime, TimeZone, Utc};
use futures::{FutureExt, Stream, StreamExt};
use rust_decimal::{Decimal, prelude::FromPrimitive};
use serde_json::{Value, json};
use smol_str::SmolStr;
use std::{
    collections::HashMap,
    panic::AssertUnwindSafe,
    sync::{
        Arc, LazyLock, Mutex,
        atomic::{AtomicI64, Ordering},
    },
    time::Duration,
};
use tokio::sync::Semaphore;
use vh_common::*;

type Risk = DefaultRiskManager<State>;
type State = EngineState<RecGlobal, RecData>;
type MEvent = MarketStreamEvent<InstrumentIndex, DataKind>;

const BASE_MS: i64 = 1_700_000_000_000;
/// a run normally takes milliseconds; after two runs that hit the limit (a hang caused by the code
/// under test) the remaining runs get a short limit so that the check still ends in minutes
static TIMEOUTS: AtomicI64 = AtomicI64::new(0);
fn run_timeout(sc: &Scenario) -> Duration {
    Duration::from_millis(sc.slow_ms)
        + if TIMEOUTS.load(Ordering::SeqCst) >= 2 {
            Duration::from_secs(2)
        } else {
            Duration::from_secs(30)
        }
}

// ---------------------------------------------------------------------------------------------
// What an engine saw: recorded inside its own EngineState (plain data, cloned with the state)
// ---------------------------------------------------------------------------------------------

#[derive(Debug, Clone, PartialEq)]
enum LogItem {
    /// canonical rendering of a market `Item` (everything but `time_received`)
    Market(String),
    /// `MarketStreamEvent::Reconnecting(exchange)` (observed through `on_disconnect`)
    Reconnecting(String),
    Account(Acct),
}

#[derive(Debug, Clone, PartialEq)]
struct Acct {
    /// 0 full snapshot, 1 balance, 2 order response fully filled, 3 order response failed,
    /// 4 order response other, 5 cancel response, 6 trade
    kind: u8,
    /// canonical, timestamp-free rendering
    detail: String,
    /// the failure is a connectivity one (request timeout / exchange offline)
    connectivity: bool,
}

fn market_key(e: &MarketEvent<InstrumentIndex, DataKind>) -> String {
    format!(
        "I|{}|{}|{}|{:?}",
        e.time_exchange.timestamp_nanos_opt().unwrap_or(i64::MIN),
        e.exchange,
        e.instrument.index(),
        e.kind
    )
}
fn stream_key(e: &MEvent) -> String {
    match e {
        MarketStreamEvent::Item(e) => market_key(e),
        MarketStreamEvent::Reconnecting(ex) => format!("R|{ex}"),
    }
}

fn acct_of(e: &AccountEvent) -> Acct {
    match &e.kind {
        AccountEventKind::Snapshot(s) => {
            let mut bals: Vec<String> = s
                .balances
                .iter()
                .map(|b| format!("{}:{}/{}", b.asset.index(), b.balance.total, b.balance.free))
                .collect();
            bals.sort();
            let orders: usize = s.instruments.iter().map(|i| i.orders.len()).sum();
            Acct {
                kind: 0,
                detail: format!("snapshot ex{} [{}] orders={}", e.exchange.index(), bals.join(","), orders),
                connectivity: false,
            }
        }
        AccountEventKind::BalanceSnapshot(b) => Acct {
            kind: 1,
            detail: format!("balance a{} {}/{}", b.0.asset.index(), b.0.balance.total, b.0.balance.free),
            connectivity: false,
        },
        AccountEventKind::OrderSnapshot(o) => {
            let o = &o.0;
            let head = format!(
                "order i{} {} {:?} px{} q{}",
                o.key.instrument.index(),
                o.key.cid,
                o.side,
                o.price,
                o.quantity
            );
            match &o.state {
                OrderState::Inactive(InactiveOrderState::FullyFilled) => Acct {
                    kind: 2,
                    detail: format!("{head} filled"),
                    connectivity: false,
                },
                OrderState::Inactive(InactiveOrderState::OpenFailed(err)) => {
                    let txt = format!("{err:?}");
                    let connectivity = txt.contains("Connectivity");
                    // the balance figures inside the rejection text are deterministic, keep them
                    Acct {
                        kind: 3,
                        detail: format!("{head} failed {txt}"),
                        connectivity,
                    }
                }
                other => Acct {
                    kind: 4,
                    detail: format!("{head} other {}", strip_times(&format!("{other:?}"))),
                    connectivity: false,
                },
            }
        }
        AccountEventKind::OrderCancelled(c) => Acct {
            kind: 5,
            detail: format!("cancel i{} {}", c.key.instrument.index(), c.key.cid),
            connectivity: false,
        },
        AccountEventKind::Trade(t) => Acct {
            kind: 6,
            detail: format!(
                "trade i{} m{} id{} oid{} {:?} px{} q{} fee{}",
                t.instrument.index(),
                // exchange time at minute resolution: dataset times are whole minutes apart and
                // the clock adds only the wall-clock milliseconds since the last event
                (t.time_exchange.timestamp_millis() - BASE_MS).div_euclid(60_000),
                t.id.0,
                t.order_id.0,
                t.side,
                t.price,
                t.quantity,
                t.fees.fees
            ),
            connectivity: false,
        },
    }
}

/// crude removal of `2023-...Z` timestamps from a Debug rendering
fn strip_times(s: &str) -> String {
    let mut out = String::new();
    let b: Vec<char> = s.chars().collect();
    let mut i = 0;
    while i < b.len() {
        if i + 10 < b.len()
            && b[i].is_ascii_digit()
            && b[i + 4] == '-'
            && b[i + 7] == '-'
            && b[i + 10] == 'T'
        {
            while i < b.len() && b[i] != 'Z' {
                i += 1;
            }
            i += 1;
            out.push_str("<t>");
        } else {
            out.push(b[i]);
            i += 1;
        }
    }
    out
}

#[derive(Debug, Clone, Default)]
struct RecGlobal {
    log: Vec<LogItem>,
    /// gate id stamped on the last market item (0 = plain feed)
    gate: i64,
    /// (exchange index, mock order sequence number, exchange time in ns) of every trade
    /// processed, in arrival order
    stamps: Vec<(usize, i64, i64)>,
}

impl Processor<&MarketEvent<InstrumentIndex, DataKind>> for RecGlobal {
    type Audit = ();
    fn process(&mut self, e: &MarketEvent<InstrumentIndex, DataKind>) {
        self.log.push(LogItem::Market(market_key(e)));
        self.gate = e.time_received.timestamp_millis();
    }
}
impl Processor<&AccountEvent> for RecGlobal {
    type Audit = ();
    fn process(&mut self, e: &AccountEvent) {
        if let AccountEventKind::Trade(t) = &e.kind {
            self.stamps.push((
                e.exchange.index(),
                t.order_id.0.parse::<i64>().unwrap_or(-1),
                t.time_exchange.timestamp_nanos_opt().unwrap_or(0),
            ));
        }
        self.log.push(LogItem::Account(acct_of(e)));
    }
}

/// Instrument data: the default market data plus the strategy's own counters. Every trading
/// decision is a function of these counters only.
#[derive(Debug, Clone, Default)]
struct RecData {
    md: DefaultInstrumentMarketData,
    /// market events seen for this instrument
    count: u64,
    /// a market event arrived and no order has been sent for it yet
    armed: bool,
    /// price carried by the last market event (trade price / L1 mid)
    px: Option<Decimal>,
    /// units the strategy intends to hold (orders sent, not fills received)
    units: u32,
    sent: u64,
}

impl InstrumentDataState for RecData {
    type MarketEventKind = DataKind;
    fn price(&self) -> Option<Decimal> {
        self.md.price()
    }
}
impl Processor<&MarketEvent<InstrumentIndex, DataKind>> for RecData {
    type Audit = ();
    fn process(&mut self, e: &MarketEvent<InstrumentIndex, DataKind>) {
        self.md.process(e);
        self.count += 1;
        self.armed = true;
        match &e.kind {
            DataKind::Trade(t) => self.px = Decimal::from_f64(t.price),
            DataKind::OrderBookL1(l1) => {
                if let Some(m) = l1.mid_price() {
                    self.px = Some(m)
                }
            }
            _ => {}
        }
    }
}
impl Processor<&AccountEvent> for RecData {
    type Audit = ();
    fn process(&mut self, _: &AccountEvent) {}
}
impl InFlightRequestRecorder for RecData {
    fn record_in_flight_cancel(&mut self, _: &OrderRequestCancel<ExchangeIndex, InstrumentIndex>) {}
    fn record_in_flight_open(&mut self, r: &OrderRequestOpen<ExchangeIndex, InstrumentIndex>) {
        self.armed = false;
        self.sent += 1;
        match r.state.side {
            Side::Buy => self.units += 1,
            Side::Sell => self.units = 0,
        }
    }
}

// ---------------------------------------------------------------------------------------------
// Per-backtest sink owned by the harness, filled by that backtest's strategy
// ---------------------------------------------------------------------------------------------

#[derive(Debug, Clone)]
struct InstrSnap {
    name: String,
    position: PositionManager,
    orders: Orders,
    tear_sheet: TearSheetGenerator,
    count: u64,
    units: u32,
    sent: u64,
}

#[derive(Debug, Clone)]
struct FinalState {
    instruments: Vec<InstrSnap>,
    assets: Vec<(String, AssetState)>,
}

#[derive(Debug, Default)]
struct Sink {
    log: Vec<LogItem>,
    sent: u64,
    resp_ok: u64,
    resp_err: u64,
    trades: u64,
    balances: u64,
    snapshots: usize,
    /// the account stream re-synchronised (a further snapshot / a Reconnecting account event)
    resynced: bool,
    stamps: Vec<(usize, i64, i64)>,
    connectivity_errors: u64,
    awaiting: bool,
    gate: Option<Arc<Semaphore>>,
    final_state: Option<FinalState>,
}

impl Sink {
    fn quiescent(&self, hold: usize) -> bool {
        self.snapshots >= hold
            && self.sent == self.resp_ok + self.resp_err
            && self.trades == self.resp_ok
            && self.balances == self.resp_ok
    }
}

static GATES: LazyLock<Mutex<HashMap<i64, Arc<Semaphore>>>> = LazyLock::new(|| Mutex::new(HashMap::new()));
static NEXT_GATE: AtomicI64 = AtomicI64::new(1);

// ---------------------------------------------------------------------------------------------
// Strategy: decisions depend only on the per-instrument count of market events seen
// ---------------------------------------------------------------------------------------------

#[derive(Debug, Clone)]
struct Params {
    /// buy one lot on every k-th market event of an instrument while holding < max_units
    k: u64,
    /// sell everything held on every m-th market event of an instrument
    m: u64,
    max_units: u32,
    /// lot size, in 1e-3 units
    lot_milli: i64,
    /// number of separate buy orders (one lot each) sent for the instrument on a buy tick: more
    /// orders in flight on one exchange than it has instruments
    burst: u32,
    /// send an order for this instrument (whose exchange has no execution link) at this count
    fatal: Option<(usize, u64)>,
}

#[derive(Debug, Clone)]
struct Strat {
    id: StrategyId,
    #[allow(dead_code)]
    bt: usize,
    p: Params,
    /// paced feed: hold orders until this many account snapshots (one per mocked exchange) have
    /// been processed; 0 under the plain feed
    hold: usize,
    /// slot -> engine instrument index
    slot_index: Vec<usize>,
    /// engine indices of instruments on an exchange without execution link: never traded
    /// (except by the fatal rule)
    no_trade: Vec<usize>,
    sink: Arc<Mutex<Sink>>,
}

impl Strat {
    fn decide(&self, inst: usize, d: &RecData) -> Vec<(Side, Decimal)> {
        self.decide_one(inst, d)
            .map(|(side, qty)| {
                let n = if side == Side::Buy && self.p.fatal.is_none() { self.p.burst.max(1) } else { 1 };
                vec![(side, qty); n as usize]
            })
            .unwrap_or_default()
    }
    fn decide_one(&self, inst: usize, d: &RecData) -> Option<(Side, Decimal)> {
        if !d.armed {
            return None;
        }
        let lot = Decimal::new(self.p.lot_milli, 3);
        if let Some((fi, fc)) = self.p.fatal {
            if self.slot_index.get(fi) == Some(&inst) {
                return (d.count == fc).then_some((Side::Buy, lot));
            }
        }
        if self.no_trade.contains(&inst) {
            return None;
        }
        d.px?;
        if d.units > 0 && d.count % self.p.m == 0 {
            Some((Side::Sell, lot * Decimal::from(d.units)))
        } else if d.units < self.p.max_units && d.count % self.p.k == 0 {
            Some((Side::Buy, lot))
        } else {
            None
        }
    }
}

impl AlgoStrategy for Strat {
    type State = State;

    fn generate_algo_orders(
        &self,
        state: &Self::State,
    ) -> (
        impl IntoIterator<Item = OrderRequestCancel<ExchangeIndex, InstrumentIndex>>,
        impl IntoIterator<Item = OrderRequestOpen<ExchangeIndex, InstrumentIndex>>,
    ) {
        let mut sink = self.sink.lock().unwrap();

        // mirror what this engine's state has recorded since the last tick
        let from = sink.log.len();
        for item in &state.global.log[from.min(state.global.log.len())..] {
            match item {
                LogItem::Market(_) => sink.awaiting = true,
                LogItem::Reconnecting(_) => {}
                LogItem::Account(a) => {
                    match a.kind {
                        0 => sink.snapshots += 1,
                        1 => sink.balances += 1,
                        2 => sink.resp_ok += 1,
                        3 | 4 => sink.resp_err += 1,
                        6 => sink.trades += 1,
                        _ => {}
                    }
                    if a.connectivity {
                        sink.connectivity_errors += 1;
                    }
                }
            }
            sink.log.push(item.clone());
        }
        if sink.gate.is_none() && state.global.gate != 0 {
            sink.gate = GATES.lock().unwrap().remove(&state.global.gate);
        }

        // decisions
        let mut opens = vec![];
        if sink.snapshots >= self.hold {
            for s in state.instruments.instruments(&InstrumentFilter::None) {
                let inst = s.key.index();
                for (j, (side, qty)) in self.decide(inst, &s.data).into_iter().enumerate() {
                    opens.push(OrderRequestOpen {
                        key: OrderKey {
                            exchange: s.instrument.exchange,
                            instrument: s.key,
                            strategy: self.id.clone(),
                            cid: ClientOrderId::new(format!("{}-i{}-n{}-{}", self.id.0, inst, s.data.count, j)),
                        },
                        state: RequestOpen {
                            side,
                            price: s.data.px.unwrap_or(Decimal::ONE),
                            quantity: qty,
                            kind: OrderKind::Market,
                            time_in_force: TimeInForce::ImmediateOrCancel,
                        },
                    });
                }
            }
        }
        sink.sent += opens.len() as u64;

        if sink.stamps.len() != state.global.stamps.len() {
            sink.stamps = state.global.stamps.clone();
        }
        // final state as of this tick (a later terminal tick does not change it)
        sink.final_state = Some(FinalState {
            instruments: state
                .instruments
                .instruments(&InstrumentFilter::None)
                .map(|s| InstrSnap {
                    name: s.instrument.name_internal.to_string(),
                    position: s.position.clone(),
                    orders: s.orders.clone(),
                    tear_sheet: s.tear_sheet.clone(),
                    count: s.data.count,
                    units: s.data.units,
                    sent: s.data.sent,
                })
                .collect(),
            assets: state
                .assets
                .0
                .iter()
                .map(|(k, v)| (format!("{:?}", k), v.clone()))
                .collect(),
        });

        // the account stream of a mocked exchange broke and re-synchronised from a snapshot:
        // notifications may be lost, pacing can no longer complete; let the run finish (the
        // oracle rejects it: fills seen != orders accepted)
        if self.hold > 0 && sink.snapshots > self.hold && !sink.resynced {
            sink.resynced = true;
            if let Some(g) = sink.gate.clone() {
                g.add_permits(1_000_000);
            }
        }
        // an execution request timed out (machine overloaded): this run will be repeated, let
        // it finish without pacing
        if sink.connectivity_errors > 0 {
            if let Some(g) = sink.gate.clone() {
                g.add_permits(1_000_000);
            }
        }
        // paced feed: release the next market event once nothing is outstanding
        if sink.awaiting && sink.quiescent(self.hold) {
            if let Some(g) = sink.gate.clone() {
                sink.awaiting = false;
                g.add_permits(1);
            }
        }
        (std::iter::empty(), opens)
    }
}

impl ClosePositionsStrategy for Strat {
    type State = State;
    fn close_positions_requests<'a>(
        &'a self,
        state: &'a Self::State,
        filter: &'a InstrumentFilter,
    ) -> (
        impl IntoIterator<Item = OrderRequestCancel<ExchangeIndex, InstrumentIndex>> + 'a,
        impl IntoIterator<Item = OrderRequestOpen<ExchangeIndex, InstrumentIndex>> + 'a,
    )
    where
        ExchangeIndex: 'a,
        AssetIndex: 'a,
        InstrumentIndex: 'a,
    {
        close_open_positions_with_market_orders(&self.id, state, filter, |_| ClientOrderId::random())
    }
}

impl OnDisconnectStrategy<HistoricalClock, State, MultiExchangeTxMap, Risk> for Strat {
    type OnDisconnect = ();
    fn on_disconnect(
        engine: &mut Engine<HistoricalClock, State, MultiExchangeTxMap, Self, Risk>,
        exchange: ExchangeId,
    ) -> Self::OnDisconnect {
        engine
            .state
            .global
            .log
            .push(LogItem::Reconnecting(format!("R|{exchange}")));
    }
}

impl OnTradingDisabled<HistoricalClock, State, MultiExchangeTxMap, Risk> for Strat {
    type OnTradingDisabled = ();
    fn on_trading_disabled(
        _: &mut Engine<HistoricalClock, State, MultiExchangeTxMap, Self, Risk>,
    ) -> Self::OnTradingDisabled {
    }
}

// ---------------------------------------------------------------------------------------------
// Paced market data: MarketDataInMemory::stream() handed out one event at a time
// ---------------------------------------------------------------------------------------------

/// A user-style market data source that replays at a pace: `MarketDataInMemory::stream()` with a
/// real-time sleep before every event, `total` in all. Nothing in a backtest may cut it short.
#[derive(Debug, Clone)]
struct SlowMarketData {
    inner: MarketDataInMemory<DataKind>,
    len: usize,
    total: Duration,
}

impl BacktestMarketData for SlowMarketData {
    type Kind = DataKind;

    async fn time_first_event(&self) -> Result<DateTime<Utc>, BarterError> {
        self.inner.time_first_event().await
    }

    async fn stream(&self) -> Result<impl Stream<Item = MEvent> + Send + 'static, BarterError> {
        let inner = Box::pin(self.inner.stream().await?);
        let gap = self.total / self.len.max(1) as u32;
        Ok(futures::stream::unfold(inner, move |mut inner| async move {
            let next = inner.next().await?;
            tokio::time::sleep(gap).await;
            Some((next, inner))
        }))
    }
}

/// which call of `stream()` (counted from the last reset) gets the failing stream
#[derive(Debug)]
struct FailCtl {
    next: std::sync::atomic::AtomicUsize,
    fail_on: std::sync::atomic::AtomicUsize,
}

/// A user-style market data source with a corrupt record: the stream of ONE of the backtests
/// panics after `after` events (the forwarding task dies with a JoinError). A backtest fed by it
/// must not come back as an ordinary Ok(summary) of a partially fed engine.
#[derive(Debug, Clone)]
struct FailingMarketData {
    inner: MarketDataInMemory<DataKind>,
    after: usize,
    ctl: Arc<FailCtl>,
}

impl BacktestMarketData for FailingMarketData {
    type Kind = DataKind;

    async fn time_first_event(&self) -> Result<DateTime<Utc>, BarterError> {
        self.inner.time_first_event().await
    }

    async fn stream(&self) -> Result<impl Stream<Item = MEvent> + Send + 'static, BarterError> {
        let inner = Box::pin(self.inner.stream().await?);
        let call = self.ctl.next.fetch_add(1, Ordering::SeqCst);
        let failing = call == self.ctl.fail_on.load(Ordering::SeqCst);
        let after = self.after;
        Ok(futures::stream::unfold((inner, 0usize), move |(mut inner, n)| async move {
            if failing && n == after {
                panic!("corrupt record in the market data source");
            }
            let next = inner.next().await?;
            Some((next, (inner, n + 1)))
        }))
    }
}

#[derive(Debug, Clone)]
struct PacedMarketData {
    inner: MarketDataInMemory<DataKind>,
}

impl BacktestMarketData for PacedMarketData {
    type Kind = DataKind;

    async fn time_first_event(&self) -> Result<DateTime<Utc>, BarterError> {
        self.inner.time_first_event().await
    }

    async fn stream(&self) -> Result<impl Stream<Item = MEvent> + Send + 'static, BarterError> {
        let inner = Box::pin(self.inner.stream().await?);
        let id = NEXT_GATE.fetch_add(1, Ordering::SeqCst);
        let sem = Arc::new(Semaphore::new(1));
        GATES.lock().unwrap().insert(id, Arc::clone(&sem));
        let stamp = Utc.timestamp_millis_opt(id).unwrap();
        Ok(futures::stream::unfold((inner, sem), move |(mut inner, sem)| async move {
            match inner.next().await {
                None => {
                    // wait for the last event (and its fills) to be processed before the
                    // forwarder finishes
                    sem.acquire().await.expect("gate closed").forget();
                    None
                }
                Some(MarketStreamEvent::Item(mut e)) => {
                    sem.acquire().await.expect("gate closed").forget();
                    e.time_received = stamp;
                    Some((MarketStreamEvent::Item(e), (inner, sem)))
                }
                Some(other) => Some((other, (inner, sem))),
            }
        }))
    }
}

// ---------------------------------------------------------------------------------------------
// Scenario description (the JSON `input`)
// ---------------------------------------------------------------------------------------------

#[derive(Debug, Clone)]
enum EvSpec {
    /// instrument slot, time offset (ms from BASE), price in quarters, amount in quarters, buy side
    /// `ns`: additional nanoseconds on top of `t` (sub-millisecond clusters, ms boundaries)
    Trade { inst: usize, t: i64, ns: i64, px4: i64, am4: i64, buy: bool },
    /// best bid / ask prices in quarters, amounts in quarters
    L1 { inst: usize, t: i64, ns: i64, bid4: i64, ask4: i64, bam4: i64, aam4: i64 },
    /// the other market item kinds the engine accepts: 0 L1 with a bid only, 1 L1 with an ask
    /// only, 2 empty L1, 3 candle, 4 liquidation, 5 L2 order book snapshot, 6 L2 update
    Other { inst: usize, t: i64, ns: i64, kind: u8, px4: i64 },
    Reconnecting { slot: usize },
}

#[derive(Debug, Clone)]
struct Scenario {
    paced: bool,
    /// 0: Binance spot only (slots 0, 1). 1: plus a Kraken spot instrument without execution
    /// link (slot 2). 2: three exchanges with the link-less one in the middle — Binance spot
    /// (mock; slots 0, 1), Kraken (no link; slot 2 perpetual, contract size 0.001, settled in
    /// the quote asset; slot 4 future, contract size 100, settled in the base asset), Okx
    /// (second mock; slot 3 spot)
    topo: u8,
    latency_ms: u64,
    fee_bp: i64,
    /// quote balance of the mock exchange, whole units
    quote_balance: i64,
    base_balance: i64,
    events: Vec<EvSpec>,
    params: Vec<Params>,
    workers: Vec<usize>,
    /// slow source: a user-style `BacktestMarketData` whose stream takes this many milliseconds
    /// of wall-clock (real tokio time) to deliver the dataset, evenly spread over the events
    /// (plain feed only; 0 = MarketDataInMemory as is)
    slow_ms: u64,
    /// failing source: the market stream handed to backtest number `.0` of a batch (or to that
    /// backtest when run alone) panics ("corrupt record") after delivering `.1` events; the
    /// other backtests get healthy streams of the same shared source (plain feed only)
    fail: Option<(usize, usize)>,
    /// how the backtest ids are formed: 0 "bt<n>", 1 "<n>" (decimal, not padded: "10" < "2"
    /// lexicographically), 2 reverse-sorted, 3 neither sorted nor reverse-sorted, 4 all equal,
    /// 5 twins (2k and 2k+1 share id and parameters)
    ids: u8,
}

impl EvSpec {
    fn to_json(&self) -> Value {
        match self {
            EvSpec::Trade { inst, t, ns, px4, am4, buy } => {
                json!({"k":"T","i":inst,"t":t,"n":ns,"p":px4,"a":am4,"b":buy})
            }
            EvSpec::L1 { inst, t, ns, bid4, ask4, bam4, aam4 } => {
                json!({"k":"L","i":inst,"t":t,"n":ns,"bp":bid4,"ap":ask4,"ba":bam4,"aa":aam4})
            }
            EvSpec::Other { inst, t, ns, kind, px4 } => json!({"k":"O","i":inst,"t":t,"n":ns,"c":kind,"p":px4}),
            EvSpec::Reconnecting { slot } => json!({"k":"R","s":slot}),
        }
    }
    fn from_json(v: &Value) -> EvSpec {
        let g = |k: &str| v[k].as_i64().unwrap_or(0);
        match v["k"].as_str().unwrap_or("T") {
            "L" => EvSpec::L1 {
                inst: g("i") as usize,
                t: g("t"),
                ns: g("n"),
                bid4: g("bp"),
                ask4: g("ap"),
                bam4: g("ba"),
                aam4: g("aa"),
            },
            "R" => EvSpec::Reconnecting { slot: g("s") as usize },
            "O" => EvSpec::Other {
                inst: g("i") as usize,
                t: g("t"),
                ns: g("n"),
                kind: g("c") as u8,
                px4: g("p"),
            },
            _ => EvSpec::Trade {
                inst: g("i") as usize,
                t: g("t"),
                ns: g("n"),
                px4: g("p"),
                am4: g("a"),
                buy: v["b"].as_bool().unwrap_or(true),
            },
        }
    }
}

impl Params {
    fn to_json(&self) -> Value {
        json!({"k": self.k, "m": self.m, "max": self.max_units, "lot": self.lot_milli, "burst": self.burst,
               "fatal": self.fatal.map(|(i, c)| json!([i, c]))})
    }
    fn from_json(v: &Value) -> Params {
        Params {
            k: v["k"].as_u64().unwrap_or(1).max(1),
            m: v["m"].as_u64().unwrap_or(1).max(1),
            max_units: v["max"].as_u64().unwrap_or(1) as u32,
            lot_milli: v["lot"].as_i64().unwrap_or(1000),
            burst: v["burst"].as_u64().unwrap_or(1).clamp(1, 8) as u32,
            fatal: v["fatal"].as_array().and_then(|a| {
                Some((a.first()?.as_u64()? as usize, a.get(1)?.as_u64()?))
            }),
        }
    }
}

impl Scenario {
    fn to_json(&self) -> Value {
        json!({
            "paced": self.paced, "topo": self.topo, "latency_ms": self.latency_ms,
            "fee_bp": self.fee_bp, "quote_balance": self.quote_balance, "base_balance": self.base_balance,
            "events": self.events.iter().map(|e| e.to_json()).collect::<Vec<_>>(),
            "params": self.params.iter().map(|p| p.to_json()).collect::<Vec<_>>(),
            "workers": self.workers,
            "ids": self.ids,
            "slow_ms": self.slow_ms,
            "fail": self.fail.map(|(f, k)| json!([f, k])),
        })
    }
    fn from_json(v: &Value) -> Scenario {
        Scenario {
            paced: v["paced"].as_bool().unwrap_or(false),
            topo: v["topo"]
                .as_u64()
                .map(|t| t.min(2) as u8)
                .unwrap_or(if v["unlinked"].as_bool().unwrap_or(false) { 1 } else { 0 }),
            latency_ms: v["latency_ms"].as_u64().unwrap_or(0),
            fee_bp: v["fee_bp"].as_i64().unwrap_or(0),
            quote_balance: v["quote_balance"].as_i64().unwrap_or(1_000_000),
            base_balance: v["base_balance"].as_i64().unwrap_or(1_000),
            events: v["events"].as_array().map(|a| a.iter().map(EvSpec::from_json).collect()).unwrap_or_default(),
            params: v["params"].as_array().map(|a| a.iter().map(Params::from_json).collect()).unwrap_or_default(),
            workers: v["workers"]
                .as_array()
                .map(|a| a.iter().map(|x| x.as_u64().unwrap_or(1).max(1) as usize).collect())
                .unwrap_or_default(),
            ids: v["ids"].as_u64().unwrap_or(0) as u8,
            slow_ms: v["slow_ms"].as_u64().unwrap_or(0).min(120_000),
            fail: v["fail"].as_array().and_then(|a| {
                Some((a.first()?.as_u64()? as usize, a.get(1)?.as_u64()? as usize))
            }),
        }
    }
    /// id scheme 5: backtests 2k and 2k+1 are twins (same id, parameters, risk-free rate)
    fn twin_of(&self, bt: usize) -> usize {
        if self.ids == 5 { bt & !1 } else { bt }
    }
    /// distinct per backtest, so that any cross-wiring of arguments or results shows
    fn rfr_of(&self, bt: usize) -> Decimal {
        Decimal::new(5 + self.twin_of(bt) as i64, 2)
    }
    /// the id given to backtest `bt`
    fn id_of(&self, bt: usize) -> String {
        match self.ids {
            1 => format!("{bt}"),
            2 => format!("r{:03}", 900 - bt),
            3 => format!("k{}", (bt * 7 + 3) % 37),
            4 => "same".to_string(),
            5 => format!("tw{}", bt / 2),
            _ => format!("bt{bt}"),
        }
    }
    /// the fatal tick, as (dataset position) of the market event on which some backtest sends an
    /// order to the unlinked exchange; only meaningful when every backtest shares it
    fn fatal_position(&self, p: &Params) -> Option<usize> {
        let (fi, fc) = p.fatal?;
        let mut n = 0;
        for (pos, e) in self.events.iter().enumerate() {
            let inst = match e {
                EvSpec::Trade { inst, .. } | EvSpec::L1 { inst, .. } | EvSpec::Other { inst, .. } => *inst,
                EvSpec::Reconnecting { .. } => continue,
            };
            if inst == fi {
                n += 1;
                if n == fc {
                    return Some(pos);
                }
            }
        }
        None
    }
}

// ---------------------------------------------------------------------------------------------
// Building the real inputs
// ---------------------------------------------------------------------------------------------

struct Built {
    instruments: IndexedInstruments,
    executions: Vec<ExecutionConfig>,
    /// slot -> (exchange id, instrument index)
    slots: Vec<(ExchangeId, InstrumentIndex)>,
    /// engine indices of the instruments whose exchange has no execution link
    no_trade: Vec<usize>,
    n_mocks: usize,
}

fn build_config(sc: &Scenario) -> Built {
    let spot = |ex: &str, name: &str, base: &str, quote: &str| {
        json!({"exchange": ex, "name_exchange": name, "underlying": {"base": base, "quote": quote},
               "quote": "underlying_quote", "kind": "spot"})
    };
    let mut inst_cfg = vec![
        spot("binance_spot", "BTCUSDT", "btc", "usdt"),
        spot("binance_spot", "ETHUSDT", "eth", "usdt"),
    ];
    match sc.topo {
        1 => inst_cfg.push(spot("kraken", "XBT/USD", "xbt", "usd")),
        2 => {
            inst_cfg.push(json!({"exchange":"kraken","name_exchange":"PI_XBTUSD","underlying":{"base":"xbt","quote":"usd"},
                "quote":"underlying_quote","kind":{"perpetual":{"contract_size":"0.001","settlement_asset":"usd"}}}));
            inst_cfg.push(spot("okx", "BTC-USDT", "btc", "usdt"));
            inst_cfg.push(json!({"exchange":"kraken","name_exchange":"FI_ETHUSD_251226","underlying":{"base":"eth","quote":"usd"},
                "quote":"underlying_quote","kind":{"future":{"contract_size":"100","settlement_asset":"eth","expiry":1766707200000i64}}}));
        }
        _ => {}
    }
    let instruments: Vec<InstrumentConfig> =
        serde_json::from_value(Value::Array(inst_cfg)).expect("instrument config");
    let bal = |asset: &str, amount: i64| {
        json!({"asset": asset, "balance": {"total": amount, "free": amount}, "time_exchange": "2023-01-01T00:00:00Z"})
    };
    let mut exec = vec![json!({
        "mocked_exchange": "binance_spot",
        "latency_ms": sc.latency_ms,
        "fees_percent": Decimal::new(sc.fee_bp, 4).to_string(),
        "initial_state": {
            "exchange": "binance_spot",
            "balances": [bal("usdt", sc.quote_balance), bal("btc", sc.base_balance), bal("eth", sc.base_balance)],
            "instruments": [
                {"instrument":"BTCUSDT","orders":[]},
                {"instrument":"ETHUSDT","orders":[]}
            ]
        }
    })];
    if sc.topo == 2 {
        exec.push(json!({
            "mocked_exchange": "okx",
            "latency_ms": sc.latency_ms,
            "fees_percent": Decimal::new(sc.fee_bp + 5, 4).to_string(),
            "initial_state": {
                "exchange": "okx",
                "balances": [bal("usdt", sc.quote_balance / 2 + 7), bal("btc", sc.base_balance / 2 + 3)],
                "instruments": [{"instrument":"BTC-USDT","orders":[]}]
            }
        }));
    }
    let n_mocks = exec.len();
    let executions: Vec<ExecutionConfig> = serde_json::from_value(Value::Array(exec)).expect("execution config");
    let indexed = IndexedInstruments::new(instruments);
    let find = |ex: ExchangeId, name: &str| {
        indexed
            .instruments()
            .iter()
            .find(|k| k.value.exchange.value == ex && k.value.name_exchange.name().as_str() == name)
            .map(|k| (ex, k.key))
            .expect("instrument present")
    };
    let mut slots = vec![
        find(ExchangeId::BinanceSpot, "BTCUSDT"),
        find(ExchangeId::BinanceSpot, "ETHUSDT"),
    ];
    let mut linkless = vec![];
    match sc.topo {
        1 => {
            slots.push(find(ExchangeId::Kraken, "XBT/USD"));
            linkless.push(2);
        }
        2 => {
            slots.push(find(ExchangeId::Kraken, "PI_XBTUSD"));
            slots.push(find(ExchangeId::Okx, "BTC-USDT"));
            slots.push(find(ExchangeId::Kraken, "FI_ETHUSD_251226"));
            linkless.extend([2, 4]);
        }
        _ => {}
    }
    Built {
        instruments: indexed,
        executions,
        n_mocks,
        no_trade: linkless.iter().map(|&s: &usize| slots[s].1.index()).collect(),
        slots,
    }
}

fn q4(x: i64) -> f64 {
    x as f64 / 4.0
}

fn build_events(sc: &Scenario, b: &Built) -> Vec<MEvent> {
    let slot = |i: usize| b.slots[i.min(b.slots.len() - 1)];
    let at = |t: i64, ns: i64| {
        Utc.timestamp_nanos((BASE_MS + t.clamp(-1_200_000_000_000, 6_000_000_000_000)) * 1_000_000 + ns.clamp(0, 59_000_000_000))
    };
    // `time_received` is a decoy: nothing the engine does may depend on it (the paced feed
    // overwrites it with its gate stamp)
    let decoy = |t: i64, n: usize| {
        Utc.timestamp_nanos((BASE_MS + t.clamp(-1_200_000_000_000, 6_000_000_000_000) + 17 * 86_400_000) * 1_000_000 + 1 + n as i64)
    };
    let lvl = |p4: i64, a4: i64| Level::new(Decimal::new(p4 * 25, 2), Decimal::new(a4 * 25, 2));
    sc.events
        .iter()
        .enumerate()
        .map(|(n, e)| {
            let item = |inst: usize, t: i64, ns: i64, kind: DataKind| {
                let (ex, idx) = slot(inst);
                MarketStreamEvent::Item(MarketEvent {
                    time_exchange: at(t, ns),
                    time_received: decoy(t, n),
                    exchange: ex,
                    instrument: idx,
                    kind,
                })
            };
            match e {
                EvSpec::Trade { inst, t, ns, px4, am4, buy } => item(
                    *inst,
                    *t,
                    *ns,
                    DataKind::Trade(PublicTrade {
                        id: format!("t{n}"),
                        price: q4(*px4),
                        amount: q4(*am4),
                        side: if *buy { Side::Buy } else { Side::Sell },
                    }),
                ),
                EvSpec::L1 { inst, t, ns, bid4, ask4, bam4, aam4 } => item(
                    *inst,
                    *t,
                    *ns,
                    DataKind::OrderBookL1(OrderBookL1 {
                        last_update_time: at(*t, *ns),
                        best_bid: Some(lvl(*bid4, *bam4)),
                        best_ask: Some(lvl(*ask4, *aam4)),
                    }),
                ),
                EvSpec::Other { inst, t, ns, kind, px4 } => {
                    let l1 = |bid: Option<Level>, ask: Option<Level>| {
                        DataKind::OrderBookL1(OrderBookL1 {
                            last_update_time: at(*t, *ns),
                            best_bid: bid,
                            best_ask: ask,
                        })
                    };
                    let book = || {
                        OrderBook::new(
                            n as u64,
                            Some(at(*t, *ns)),
                            vec![lvl(*px4 - 1, 4), lvl(*px4 - 2, 8)],
                            vec![lvl(*px4 + 1, 12)],
                        )
                    };
                    let k = match kind {
                        0 => l1(Some(lvl(*px4 - 1, 4)), None),
                        1 => l1(None, Some(lvl(*px4 + 1, 4))),
                        2 => l1(None, None),
                        3 => DataKind::Candle(Candle {
                            close_time: at(*t, *ns),
                            open: q4(*px4),
                            high: q4(*px4 + 8),
                            low: q4(*px4 - 8),
                            close: q4(*px4 + 1),
                            volume: 12.5,
                            trade_count: n as u64,
                        }),
                        4 => DataKind::Liquidation(Liquidation {
                            side: Side::Sell,
                            price: q4(*px4),
                            quantity: 0.25,
                            time: at(*t, *ns),
                        }),
                        5 => DataKind::OrderBook(OrderBookEvent::Snapshot(book())),
                        _ => DataKind::OrderBook(OrderBookEvent::Update(book())),
                    };
                    item(*inst, *t, *ns, k)
                }
                EvSpec::Reconnecting { slot: s } => MarketStreamEvent::Reconnecting(slot(*s).0),
            }
        })
        .collect()
}

// ---------------------------------------------------------------------------------------------
// Running
// ---------------------------------------------------------------------------------------------

#[derive(Debug, Clone)]
struct RunObs {
    bt: usize,
    /// 0 = alone, else worker threads of the concurrent batch
    workers: usize,
    /// 0 ok, 1 Err(..), 2 panic, 3 timeout, 4 summary missing / wrong id
    outcome: u8,
    log: Vec<LogItem>,
    fp_fills: String,
    fp_state: String,
    fp_summary: String,
    n_fills: u64,
    pnl: Decimal,
    sum_ok: bool,
    connectivity_errors: u64,
    note: String,
    /// every fill this engine processed carries an exchange time (minute resolution) taken from
    /// THIS backtest's clock: paced feed = the latest market time this engine had processed;
    /// plain feed (the request may be stamped while the engine is already further) = between
    /// the dataset's first time and the latest market time processed when the fill arrived
    clock_ok: bool,
    /// the mock exchange's clock went backwards between two orders it accepted one after the
    /// other (order sequence numbers i < j on one exchange, fill time of j earlier than that of
    /// i): the HistoricalClock it is driven by stepped back
    clock_regressed: bool,
    /// paced feed: every order the mock exchange accepted produced exactly one fill and one
    /// balance update that reached this engine, every order sent got its response, and the
    /// account stream never had to re-synchronise (plain feed: not judged, the shutdown race)
    fills_ok: bool,
    /// which backtest's id the summary found at this run's position carries (alone: itself;
    /// 9999 = no backtest of the batch has that id)
    pos_id: usize,
}

fn canon(v: &Value) -> String {
    // objects with sorted keys, timestamp-like keys dropped
    match v {
        Value::Object(m) => {
            let mut keys: Vec<&String> = m.keys().collect();
            keys.sort();
            let parts: Vec<String> = keys
                .into_iter()
                .filter(|k| !(k.starts_with("time") || k.ends_with("_ms") || k.as_str() == "last_update_time"))
                .map(|k| match (&m[k], k.as_str()) {
                    // trade ids of a position: same-tick fills may arrive in either order
                    (Value::Array(a), "trades") => {
                        let mut ids: Vec<String> = a.iter().map(canon).collect();
                        ids.sort();
                        format!("{k}:[{}]", ids.join(","))
                    }
                    (v, _) => format!("{k}:{}", canon(v)),
                })
                .collect();
            format!("{{{}}}", parts.join(","))
        }
        Value::Array(a) => format!("[{}]", a.iter().map(canon).collect::<Vec<_>>().join(",")),
        other => other.to_string(),
    }
}

fn fingerprints(fs: &FinalState, log: &[LogItem]) -> (String, String, u64) {
    // fills in arrival order, except that the fills arriving between two market events (several
    // orders sent on one tick: their notification tasks race) are sorted
    let mut fills: Vec<&str> = vec![];
    let mut seg: Vec<&str> = vec![];
    for l in log {
        match l {
            LogItem::Account(a) if a.kind == 6 => seg.push(a.detail.as_str()),
            LogItem::Market(_) | LogItem::Reconnecting(_) => {
                seg.sort();
                fills.append(&mut seg);
            }
            _ => {}
        }
    }
    seg.sort();
    fills.append(&mut seg);
    let mut st = String::new();
    for i in &fs.instruments {
        let mut orders: Vec<String> = i
            .orders
            .0
            .iter()
            .map(|(cid, o)| format!("{cid}:{}", canon(&serde_json::to_value(o).unwrap_or(Value::Null))))
            .collect();
        orders.sort();
        st.push_str(&format!(
            "[{} pos={} orders=[{}] pnl={} n={} u={} s={}]",
            i.name,
            canon(&serde_json::to_value(&i.position).unwrap_or(Value::Null)),
            orders.join(";"),
            canon(&serde_json::to_value(&i.tear_sheet.pnl_returns).unwrap_or(Value::Null)),
            i.count,
            i.units,
            i.sent
        ));
    }
    for (k, a) in &fs.assets {
        st.push_str(&format!(
            "[{} bal={}]",
            k,
            a.balance.as_ref().map(|b| format!("{}/{}", b.value.total, b.value.free)).unwrap_or("-".into())
        ));
    }
    (fills.join(";"), st, fills.len() as u64)
}

/// the time independent part of a returned summary, and whether the returned summary is exactly
/// what the repo's own generators produce from THIS engine's recorded final state
fn judge_summary(sum: &BacktestSummary<Daily>, fs: &FinalState, rfr: Decimal) -> (String, bool, Decimal, String) {
    let mut ok = sum.risk_free_return == rfr;
    let mut note = String::new();
    let mut fp = String::new();
    let mut pnl = Decimal::ZERO;
    if sum.trading_summary.instruments.len() != fs.instruments.len() {
        ok = false;
        note.push_str("instrument count differs;");
    }
    for i in &fs.instruments {
        let expect = i.tear_sheet.clone().generate(rfr, Daily);
        match sum.trading_summary.instruments.iter().find(|(k, _)| k.to_string() == i.name) {
            Some((_, got)) => {
                if *got != expect {
                    ok = false;
                    note.push_str(&format!("tear sheet of {} differs from this engine's state;", i.name));
                }
                pnl += got.pnl;
                fp.push_str(&format!(
                    "[{} pnl={} win={:?} pf={:?} dd={:?} ddmax={:?}]",
                    i.name,
                    got.pnl,
                    got.win_rate.as_ref().map(|w| w.value),
                    got.profit_factor.as_ref().map(|w| w.value),
                    got.pnl_drawdown.as_ref().map(|d| d.value),
                    got.pnl_drawdown_max.as_ref().map(|d| d.0.value),
                ));
            }
            None => {
                ok = false;
                note.push_str(&format!("no tear sheet for {};", i.name));
            }
        }
    }
    if sum.trading_summary.assets.len() != fs.assets.len() {
        ok = false;
        note.push_str("asset count differs;");
    }
    for (k, a) in &fs.assets {
        let expect = a.statistics.clone().generate();
        match sum.trading_summary.assets.iter().find(|(key, _)| format!("{:?}", key) == *k) {
            Some((_, got)) => {
                if *got != expect {
                    ok = false;
                    note.push_str(&format!("asset sheet of {k} differs from this engine's state;"));
                }
                fp.push_str(&format!(
                    "[{} end={:?} dd={:?} ddmax={:?}]",
                    k,
                    got.balance_end.map(|b| (b.total, b.free)),
                    got.drawdown.as_ref().map(|d| d.value),
                    got.drawdown_max.as_ref().map(|d| d.0.value),
                ));
            }
            None => {
                ok = false;
                note.push_str(&format!("no asset sheet for {k};"));
            }
        }
    }
    (fp, ok, pnl, note)
}

struct Prepared<MD> {
    args: Arc<BacktestArgsConstant<MD, Daily, State>>,
    fail_ctl: Option<Arc<FailCtl>>,
    slot_index: Vec<usize>,
    no_trade: Vec<usize>,
    n_mocks: usize,
}

fn make_dynamic<MD>(
    sc: &Scenario,
    prep: &Prepared<MD>,
    bt: usize,
) -> (BacktestArgsDynamic<Strat, Risk>, Arc<Mutex<Sink>>) {
    let sink = Arc::new(Mutex::new(Sink::default()));
    let d = BacktestArgsDynamic {
        id: SmolStr::new(sc.id_of(bt)),
        risk_free_return: sc.rfr_of(bt),
        strategy: Strat {
            id: StrategyId::new(format!("s{}", sc.twin_of(bt))),
            bt,
            p: sc.params[sc.twin_of(bt)].clone(),
            hold: if sc.paced { prep.n_mocks } else { 0 },
            slot_index: prep.slot_index.clone(),
            no_trade: prep.no_trade.clone(),
            sink: Arc::clone(&sink),
        },
        risk: Risk::default(),
    };
    (d, sink)
}

fn minute_of_ns(ns: i64) -> i64 {
    (ns.div_euclid(1_000_000) - BASE_MS).div_euclid(60_000)
}

fn fills_use_own_clock(sc: &Scenario, log: &[LogItem]) -> bool {
    let first = sc.events.iter().find_map(|e| match e {
        EvSpec::Trade { t, ns, .. } | EvSpec::L1 { t, ns, .. } | EvSpec::Other { t, ns, .. } => {
            Some(minute_of_ns((BASE_MS + t.clamp(&-1_200_000_000_000, &6_000_000_000_000)) * 1_000_000 + ns.clamp(&0, &59_000_000_000)))
        }
        EvSpec::Reconnecting { .. } => None,
    });
    let Some(first) = first else { return true };
    let mut latest = first;
    for l in log {
        match l {
            LogItem::Market(k) => {
                if let Some(ns) = k.split('|').nth(1).and_then(|x| x.parse::<i64>().ok()) {
                    latest = latest.max(minute_of_ns(ns));
                }
            }
            LogItem::Account(a) if a.kind == 6 => {
                let m = a
                    .detail
                    .split(' ')
                    .nth(2)
                    .and_then(|x| x.strip_prefix('m'))
                    .and_then(|x| x.parse::<i64>().ok());
                match m {
                    Some(m) if sc.paced && m == latest => {}
                    Some(m) if !sc.paced && first <= m && m <= latest => {}
                    _ => return false,
                }
            }
            _ => {}
        }
    }
    true
}

fn observe(
    sc: &Scenario,
    bt: usize,
    workers: usize,
    outcome: u8,
    note: String,
    summary: Option<&BacktestSummary<Daily>>,
    sink: &Arc<Mutex<Sink>>,
) -> RunObs {
    let sink = sink.lock().unwrap();
    let rfr = sc.rfr_of(bt);
    let mut obs = RunObs {
        bt,
        workers,
        outcome,
        log: sink.log.clone(),
        fp_fills: String::new(),
        fp_state: String::new(),
        fp_summary: String::new(),
        n_fills: 0,
        pnl: Decimal::ZERO,
        sum_ok: false,
        connectivity_errors: sink.connectivity_errors,
        note,
        clock_ok: fills_use_own_clock(sc, &sink.log),
        clock_regressed: {
            let mut st = sink.stamps.clone();
            st.sort();
            st.windows(2).any(|w| w[0].0 == w[1].0 && w[0].1 < w[1].1 && w[1].2 < w[0].2)
        },
        fills_ok: !sc.paced
            || outcome != 0
            || (!sink.resynced
                && sink.sent == sink.resp_ok + sink.resp_err
                && sink.trades == sink.resp_ok
                && sink.balances == sink.resp_ok),
        pos_id: match summary {
            None => bt,
            Some(sum) if sum.id == sc.id_of(bt) => bt,
            Some(sum) => (0..sc.params.len()).find(|&j| sum.id == sc.id_of(j)).unwrap_or(9999),
        },
    };
    if let Some(fs) = &sink.final_state {
        let (ff, st, n) = fingerprints(fs, &sink.log);
        obs.fp_fills = ff;
        obs.fp_state = st;
        obs.n_fills = n;
        if let Some(sum) = summary {
            let (fp, ok, pnl, note) = judge_summary(sum, fs, rfr);
            obs.fp_summary = fp;
            obs.sum_ok = ok && sum.id == sc.id_of(bt);
            obs.pnl = pnl;
            obs.note.push_str(&note);
        }
    }
    obs
}

/// run the given backtests (indices into sc.params) on a fresh runtime; `workers == 0` = alone
/// (single `backtest` call, 2 worker threads), otherwise one `run_backtests` batch
fn run_batch<MD>(sc: &Scenario, prep: &Prepared<MD>, bts: &[usize], workers: usize) -> Vec<RunObs>
where
    MD: BacktestMarketData<Kind = DataKind> + Send + Sync + 'static,
{
    // workers: 0 alone (2 worker threads), 1000 alone on a current_thread runtime, 99 batch on
    // a current_thread runtime (every task of every backtest polled by one thread, in turn),
    // otherwise a batch on that many worker threads
    let rt = if workers == 99 || workers == 1000 {
        tokio::runtime::Builder::new_current_thread().enable_all().build().expect("runtime")
    } else {
        tokio::runtime::Builder::new_multi_thread()
            .worker_threads(if workers == 0 { 2 } else { workers })
            .enable_all()
            .build()
            .expect("runtime")
    };
    let (dyns, sinks): (Vec<_>, Vec<_>) = bts.iter().map(|&bt| make_dynamic(sc, prep, bt)).unzip();
    let limit = run_timeout(sc);
    if let (Some(ctl), Some((f, _))) = (&prep.fail_ctl, sc.fail) {
        ctl.next.store(0, Ordering::SeqCst);
        ctl.fail_on
            .store(bts.iter().position(|b| *b == f).unwrap_or(usize::MAX), Ordering::SeqCst);
    }
    let args = Arc::clone(&prep.args);
    let mut out = vec![];
    if workers == 0 || workers == 1000 {
        let bt = bts[0];
        let d = dyns.into_iter().next().unwrap();
        let res = rt.block_on(async move {
            tokio::time::timeout(limit, AssertUnwindSafe(backtest(args, d)).catch_unwind()).await
        });
        let (outcome, note, sum) = match res {
            Err(_) => {
                if sinks.iter().all(|s| s.lock().map(|s| s.connectivity_errors == 0).unwrap_or(true)) {
                    TIMEOUTS.fetch_add(1, Ordering::SeqCst);
                }
                (3, "timeout".to_string(), None)
            }
            Ok(Err(_)) => (2, "panic".to_string(), None),
            Ok(Ok(Err(e))) => (1, format!("{e:?}").chars().take(200).collect(), None),
            Ok(Ok(Ok(s))) => (0, String::new(), Some(s)),
        };
        out.push(observe(sc, bt, workers, outcome, note, sum.as_ref(), &sinks[0]));
    } else {
        let res = rt.block_on(async move {
            tokio::time::timeout(limit, AssertUnwindSafe(run_backtests(args, dyns)).catch_unwind()).await
        });
        let (outcome, note, multi) = match res {
            Err(_) => {
                if sinks.iter().all(|s| s.lock().map(|s| s.connectivity_errors == 0).unwrap_or(true)) {
                    TIMEOUTS.fetch_add(1, Ordering::SeqCst);
                }
                (3, "timeout".to_string(), None)
            }
            Ok(Err(_)) => (2, "panic".to_string(), None),
            Ok(Ok(Err(e))) => (1, format!("{e:?}").chars().take(200).collect(), None),
            Ok(Ok(Ok(s))) => (0, String::new(), Some(s)),
        };
        for (pos, &bt) in bts.iter().enumerate() {
            let (o, n, sum) = match &multi {
                None => (outcome, note.clone(), None),
                Some(m) => {
                    // POSITIONAL: the summary returned at position `pos` is the one returned for
                    // the `pos`-th BacktestArgsDynamic
                    if m.num_backtests == bts.len() && m.summaries.len() == bts.len() {
                        (0, String::new(), m.summaries.get(pos))
                    } else {
                        (4, format!("{} summaries for {} backtests", m.summaries.len(), bts.len()), None)
                    }
                }
            };
            out.push(observe(sc, bt, workers, o, n, sum, &sinks[pos]));
        }
    }
    rt.shutdown_timeout(Duration::from_millis(if out.iter().all(|o| o.outcome == 0) { 2000 } else { 50 }));
    out
}

fn prepare<MD>(b: &Built, md: MD, time_start: DateTime<Utc>) -> Prepared<MD> {
    let engine_state = EngineStateBuilder::new(&b.instruments, RecGlobal::default(), RecData::default)
        .time_engine_start(time_start)
        .trading_state(TradingState::Enabled)
        .build();
    Prepared {
        fail_ctl: None,
        slot_index: b.slots.iter().map(|s| s.1.index()).collect(),
        no_trade: b.no_trade.clone(),
        n_mocks: b.n_mocks,
        args: Arc::new(BacktestArgsConstant {
            instruments: b.instruments.clone(),
            executions: b.executions.clone(),
            market_data: md,
            summary_interval: Daily,
            engine_state,
        }),
    }
}

fn run_all<MD>(sc: &Scenario, prep: &Prepared<MD>) -> Vec<RunObs>
where
    MD: BacktestMarketData<Kind = DataKind> + Send + Sync + 'static,
{
    let n = sc.params.len();
    let mut runs = vec![];
    let retry = |f: &dyn Fn() -> Vec<RunObs>| -> Vec<RunObs> {
        // a mock-exchange round trip that exceeded the 1 s request timeout of the execution
        // manager is an execution-timing effect outside the property: run again
        let mut r = f();
        for _ in 0..3 {
            if r.iter().all(|o| o.connectivity_errors == 0) {
                break;
            }
            r = f();
        }
        r
    };
    for bt in 0..n {
        runs.extend(retry(&|| run_batch(sc, prep, &[bt], 0)));
    }
    if sc.workers.contains(&1000) {
        for bt in 0..n {
            runs.extend(retry(&|| run_batch(sc, prep, &[bt], 1000)));
        }
    }
    let all: Vec<usize> = (0..n).collect();
    for &w in sc.workers.iter().filter(|w| **w != 1000) {
        runs.extend(retry(&|| run_batch(sc, prep, &all, w)));
    }
    runs
}

fn run_scenario(sc: &Scenario) -> (Vec<String>, Vec<RunObs>, bool) {
    let b = build_config(sc);
    let events = build_events(sc, &b);
    let keys: Vec<String> = events.iter().map(stream_key).collect();
    let first = events
        .iter()
        .find_map(|e| match e {
            MarketStreamEvent::Item(e) => Some(e.time_exchange),
            _ => None,
        })
        .expect("scenario without market item");
    // the one dataset shared (Arc) by every backtest of the scenario: it must come back
    // untouched and unreferenced
    let shared = Arc::new(events);
    let before = format!("{:?}", shared);
    let md = MarketDataInMemory::new(Arc::clone(&shared));
    let runs = if sc.paced {
        run_all(sc, &prepare(&b, PacedMarketData { inner: md }, first))
    } else if let Some((_, after)) = sc.fail {
        let ctl = Arc::new(FailCtl {
            next: std::sync::atomic::AtomicUsize::new(0),
            fail_on: std::sync::atomic::AtomicUsize::new(usize::MAX),
        });
        let failing = FailingMarketData {
            inner: md,
            after,
            ctl: Arc::clone(&ctl),
        };
        let mut prep = prepare(&b, failing, first);
        prep.fail_ctl = Some(ctl);
        run_all(sc, &prep)
    } else if sc.slow_ms > 0 {
        let slow = SlowMarketData {
            inner: md,
            len: sc.events.len(),
            total: Duration::from_millis(sc.slow_ms),
        };
        run_all(sc, &prepare(&b, slow, first))
    } else {
        run_all(sc, &prepare(&b, md, first))
    };
    let intact = format!("{:?}", shared) == before;
    (keys, runs, intact)
}

// ---------------------------------------------------------------------------------------------
// Coq rendering
// ---------------------------------------------------------------------------------------------

fn fnv(s: &str) -> u64 {
    let mut h: u64 = 0xcbf29ce484222325;
    for b in s.bytes() {
        h ^= b as u64;
        h = h.wrapping_mul(0x100000001b3);
    }
    h
}

fn render(sc: &Scenario, keys: &[String], runs: &[RunObs], intact: bool) -> (String, Vec<String>, bool) {
    // intern dataset keys; unknown recorded keys get codes from 1000
    let mut table: HashMap<String, i128> = HashMap::new();
    let mut ds_codes = vec![];
    for k in keys {
        let next = table.len() as i128 + 1;
        let c = *table.entry(k.clone()).or_insert(next);
        ds_codes.push(c);
    }
    let mut unknown = 1000i128;
    let mut tags: Vec<String> = vec![];
    let mut tag = |t: &str| {
        if !tags.iter().any(|x| x == t) {
            tags.push(t.to_string())
        }
    };
    let mut run_terms = vec![];
    let mut nontrivial = false;
    for r in runs {
        let mut items = vec![];
        for l in &r.log {
            match l {
                LogItem::Market(k) | LogItem::Reconnecting(k) => {
                    let c = match table.get(k) {
                        Some(c) => *c,
                        None => {
                            unknown += 1;
                            table.insert(k.clone(), unknown);
                            unknown
                        }
                    };
                    items.push(format!("LM {}", z(c)));
                }
                LogItem::Account(a) => items.push(format!("LA {}", n(a.kind as u128))),
            }
        }
        if r.n_fills > 0 {
            nontrivial = true;
            tag("fills");
        }
        if r.log.iter().any(|l| matches!(l, LogItem::Account(a) if a.kind == 3)) {
            tag("order_rejected");
        }
        if r.log.iter().any(|l| matches!(l, LogItem::Account(a) if a.kind != 0)) {
            tag("account_events_interleaved");
        }
        if matches!(r.log.first(), Some(LogItem::Account(_))) {
            tag("snapshot_before_first_market_event");
        } else if r.log.iter().any(|l| matches!(l, LogItem::Account(a) if a.kind == 0)) {
            tag("snapshot_after_first_market_event");
        }
        if r.log.iter().any(|l| matches!(l, LogItem::Reconnecting(_))) {
            tag("reconnecting_item");
        }
        if !r.clock_ok {
            tag("fill_time_not_from_own_clock");
        }
        if r.clock_regressed {
            tag("mock_exchange_clock_regressed");
        }
        if !r.fills_ok {
            tag("accepted_order_without_fill_or_account_resync");
        }
        match r.workers {
            99 => tag("batch_on_current_thread_runtime"),
            1000 => tag("alone_on_current_thread_runtime"),
            _ => {}
        }
        if r.pnl != Decimal::ZERO {
            tag("realised_pnl");
        }
        tag(match r.outcome {
            0 => "outcome_ok",
            1 => "outcome_err",
            2 => "outcome_panic",
            3 => "outcome_timeout",
            _ => "outcome_summary_missing",
        });
        let fp = fnv(&format!("{}##{}##{}", r.fp_fills, r.fp_state, r.fp_summary));
        run_terms.push(format!(
            "(mkRun {} {} {} {} {} {} {} {} {} {} {} {})",
            n(r.bt as u128),
            n(r.workers as u128),
            n(r.pos_id as u128),
            n(r.outcome as u128),
            list(&items),
            n(fp as u128),
            n(r.n_fills as u128),
            dec_z(r.pnl.round_dp(12), 12),
            b(r.sum_ok),
            b(r.clock_ok),
            b(r.fills_ok),
            b(r.clock_regressed)
        ));
    }
    let fatal = sc.params.first().and_then(|p| sc.fatal_position(p));
    tag(if sc.paced { "paced" } else { "plain" });
    if fatal.is_none() {
        let differs = runs.iter().filter(|r| r.workers != 0).any(|r| {
            !runs.iter().any(|a| {
                a.workers == 0
                    && a.bt == r.bt
                    && a.fp_fills == r.fp_fills
                    && a.fp_state == r.fp_state
                    && a.fp_summary == r.fp_summary
            })
        });
        if differs {
            tag(if sc.paced {
                "paced_differs_alone_vs_concurrent"
            } else {
                "plain_fills_differ_alone_vs_concurrent_known_class_1"
            });
        }
    }
    if fatal.is_some() {
        tag("fatal_tick");
    }
    tag(&format!("backtests_{}", sc.params.len()));
    tag(&format!("id_scheme_{}", sc.ids));
    tag(&format!("topology_{}", sc.topo));
    if sc.slow_ms > 0 {
        tag(&format!("slow_source_{}ms", sc.slow_ms));
    }
    if let Some((_, k)) = sc.fail {
        tag(if k == 0 {
            "failing_source_before_first_event"
        } else if k + 1 >= sc.events.len() {
            "failing_source_before_last_event"
        } else {
            "failing_source_in_the_middle"
        });
        for r in runs {
            tag(match (r.workers, r.outcome) {
                (0 | 1000, 1) => "failing_source_alone_returns_err",
                (0 | 1000, 0) => "failing_source_healthy_sibling_alone_ok",
                (_, 1) => "failing_source_batch_returns_err",
                (_, 0) => "failing_source_batch_returns_ok",
                _ => "failing_source_other_outcome",
            });
        }
    }
    if !intact {
        tag("shared_dataset_modified");
    }
    for (pos, e) in sc.events.iter().enumerate() {
        match e {
            EvSpec::Reconnecting { .. } => {
                tag(if pos == 0 {
                    "reconnecting_first"
                } else if pos + 1 == sc.events.len() {
                    "reconnecting_last"
                } else {
                    "reconnecting_middle"
                });
                if pos > 0 && matches!(sc.events[pos - 1], EvSpec::Reconnecting { .. }) {
                    tag("reconnecting_run");
                }
            }
            EvSpec::Other { kind, .. } => tag(&format!("item_kind_other_{kind}")),
            EvSpec::Trade { ns, .. } | EvSpec::L1 { ns, .. } => {
                if *ns != 0 {
                    tag("sub_millisecond_times");
                }
            }
        }
    }
    if runs.iter().any(|r| r.pos_id != r.bt) {
        tag("summary_position_mismatch");
    }
    let coq = format!(
        "(mkCase {} {} {} {} {} {} {})",
        b(sc.paced),
        opt(fatal.map(|f| n(f as u128))),
        b(sc.fail.is_some() && !sc.paced),
        list(&ds_codes.iter().map(|c| z(*c)).collect::<Vec<_>>()),
        b(intact),
        n(sc.params.len() as u128),
        list(&run_terms)
    );
    (coq, tags, nontrivial || keys.len() > 1)
}

fn emit(em: &mut Emitter, stream: &'static str, sc: &Scenario) {
    if TIMEOUTS.load(Ordering::SeqCst) >= 6 {
        // the code under test hangs: enough failing cases have been produced
        return;
    }
    let computed = compute(sc);
    emit_computed(em, stream, sc, computed);
}

fn compute(sc: &Scenario) -> (Vec<String>, Vec<RunObs>, bool) {
    match catch(AssertUnwindSafe(|| run_scenario(sc))) {
        Ok(x) => x,
        Err(msg) => {
            // a panic outside the backtest futures (building the inputs, the runtime): report it
            // as a run whose outcome is "panic" so that the oracle rejects the case
            let keys: Vec<String> = (0..sc.events.len()).map(|i| format!("unbuilt{i}")).collect();
            let run = RunObs {
                bt: 0,
                workers: 0,
                outcome: 2,
                log: vec![],
                fp_fills: String::new(),
                fp_state: String::new(),
                fp_summary: String::new(),
                n_fills: 0,
                pnl: Decimal::ZERO,
                sum_ok: false,
                connectivity_errors: 0,
                clock_ok: true,
                clock_regressed: false,
                fills_ok: true,
                pos_id: 0,
                note: format!("harness-level panic: {msg}"),
            };
            (keys, vec![run], true)
        }
    }
}

fn emit_computed(em: &mut Emitter, stream: &'static str, sc: &Scenario, computed: (Vec<String>, Vec<RunObs>, bool)) {
    let (keys, runs, intact) = computed;
    if runs.iter().any(|r| r.connectivity_errors > 0) {
        // even the repeated runs hit the execution manager's request timeout: the machine is
        // too loaded for this scenario to say anything; it is not judged
        em.emit(Case {
            stream,
            input: sc.to_json(),
            coq: "(mkCase false None false [] true 0%N [])".to_string(),
            nontrivial: false,
            tags: vec!["not_judged_execution_request_timeout".into()],
        });
        return;
    }
    let (coq, tags, nontrivial) = render(sc, &keys, &runs, intact);
    if std::env::var("C20_DEBUG").is_ok() {
        for r in &runs {
            eprintln!(
                "bt{} w{} regress{} out{} fills{} pnl{} sum_ok{} conn{} note[{}]\n   fills: {}\n   state: {}\n   summ: {}",
                r.bt, r.workers, r.clock_regressed, r.outcome, r.n_fills, r.pnl, r.sum_ok, r.connectivity_errors, r.note,
                r.fp_fills, r.fp_state, r.fp_summary
            );
        }
    }
    em.emit(Case {
        stream,
        input: sc.to_json(),
        coq,
        nontrivial,
        tags,
    });
}

// ---------------------------------------------------------------------------------------------
// Generators
// ---------------------------------------------------------------------------------------------

/// increasing times with gaps of at least a minute: the HistoricalClock adds wall-clock time
/// since the last event, so gaps far above any wall-clock delay keep request times monotone
fn gen_events(r: &mut Rng, n: usize, insts: usize, adversarial: bool) -> Vec<EvSpec> {
    let mut t = 0i64;
    let mut ns = 0i64;
    let mut px: Vec<i64> = (0..insts.max(3)).map(|i| 200 + 100 * (i as i64 % 3) + r.range(0, 40)).collect();
    let mut out = vec![];
    let mut i = 0;
    while i < n {
        i += 1;
        // exchange times: whole minutes apart (the HistoricalClock adds wall-clock milliseconds,
        // the fingerprints keep minute resolution), plus - adversarial - exact ties, decreasing
        // times, sub-millisecond clusters around a millisecond boundary in any order, and jumps
        // into the far past / far future
        if adversarial && r.chance(1, 4) {
            match r.below(6) {
                0 | 1 => {}                                             // exact tie
                2 => t -= *r.pick(&[60_000i64, 3_600_000]),             // decreasing
                3 | 4 => {
                    // same minute, nanoseconds apart (non-monotone within the cluster)
                    ns = *r.pick(&[0i64, 1, 2, 999, 1_000, 999_999, 1_000_000, 1_000_001, 1_999_999, 2_000_000]);
                }
                _ => t += 60_000 * *r.pick(&[-15_000_000i64, 90_000_000, -7, 5_000_000]), // decades
            }
            // stay inside chrono's nanosecond range (1985 .. 2213)
            t = t.clamp(-1_200_000_000_000, 6_000_000_000_000);
        } else {
            t += 60_000 * r.range(1, 120);
            ns = 0;
        }
        if adversarial && r.chance(1, 8) {
            // disconnect markers: anywhere (also first and last), now and then several in a row
            let k = *r.pick(&[1usize, 1, 2, 3]);
            for _ in 0..k {
                out.push(EvSpec::Reconnecting { slot: r.below(insts as u64) as usize });
            }
            continue;
        }
        if adversarial && !out.is_empty() && r.chance(1, 10) {
            // exact duplicate of the previous (half of the time) or of any earlier event
            let e = if r.chance(1, 2) {
                out[out.len() - 1].clone()
            } else {
                out[r.below(out.len() as u64) as usize].clone()
            };
            out.push(e);
            continue;
        }
        let inst = r.below(insts as u64) as usize;
        px[inst] = (px[inst] + r.range(-12, 12)).max(8);
        match r.below(8) {
            0 | 1 => out.push(EvSpec::L1 {
                inst,
                t,
                ns,
                bid4: px[inst] - 1,
                ask4: px[inst] + 1,
                bam4: r.range(1, 40),
                aam4: r.range(1, 40),
            }),
            2 => out.push(EvSpec::Other { inst, t, ns, kind: r.below(7) as u8, px4: px[inst] }),
            _ => out.push(EvSpec::Trade {
                inst,
                t,
                ns,
                px4: px[inst],
                am4: r.range(1, 400),
                buy: r.chance(1, 2),
            }),
        }
    }
    if !out.iter().any(|e| !matches!(e, EvSpec::Reconnecting { .. })) {
        out.push(EvSpec::Trade { inst: 0, t: t + 60_000, ns: 0, px4: 400, am4: 4, buy: true });
    }
    if adversarial && r.chance(1, 6) {
        out.push(EvSpec::Reconnecting { slot: 0 });
    }
    out
}

fn gen_params(r: &mut Rng, nbt: usize) -> Vec<Params> {
    (0..nbt)
        .map(|i| Params {
            k: 1 + (i as u64 % 3) + r.below(2),
            m: 2 + (i as u64 % 4) + r.below(3),
            max_units: 1 + r.below(3) as u32,
            lot_milli: *r.pick(&[1000i64, 500, 250, 2000, 125]),
            burst: *r.pick(&[1u32, 1, 1, 1, 2, 3]),
            fatal: None,
        })
        .collect()
}

fn gen_scenario(r: &mut Rng, paced: bool, max_ev: usize, max_bt: usize, adversarial: bool) -> Scenario {
    let n = 1 + r.below(max_ev as u64) as usize;
    let nbt = 1 + r.below(max_bt as u64) as usize;
    let topo = *r.pick(&[0u8, 0, 0, 2]);
    let mut params = gen_params(r, nbt);
    // now and then a lot the mock exchange must reject for lack of funds
    let poor = r.chance(1, 6);
    if poor {
        let i = r.below(nbt as u64) as usize;
        params[i].lot_milli = 40_000;
    }
    Scenario {
        paced,
        topo,
        latency_ms: *r.pick(&[0u64, 0, 1, 2]),
        fee_bp: *r.pick(&[0i64, 10, 25]),
        quote_balance: if poor { 1_000 } else { 1_000_000 },
        base_balance: if poor { 20 } else { 1_000 },
        events: gen_events(r, n, if topo == 2 { 5 } else { 2 }, adversarial),
        params,
        workers: if r.chance(1, 3) { vec![1000, 99, 2, 8] } else { vec![1, 2, 8] },
        ids: *r.pick(&[0u8, 0, 1, 1, 2, 3, 4, 5]),
        slow_ms: 0,
        fail: None,
    }
}

/// strategies that send several orders for one instrument on a single tick (2, 3 or 5), often on
/// consecutive ticks: more fills in flight on a mocked exchange than it has instruments. Paced
/// feed (fills are deterministic), alone and in batches, on current_thread runtimes (one thread
/// polls every task in turn: the notification tasks of a burst run back to back before the
/// account forwarder is polled) and multi_thread runtimes. Every accepted order's fill and
/// balance update must reach the engine.
fn gen_burst(r: &mut Rng, i: usize) -> Scenario {
    let topo = if i % 4 == 3 { 2 } else { 0 };
    let insts = if topo == 2 { 5 } else { 2 };
    let n = 4 + r.below(10) as usize;
    let nbt = 1 + r.below(6) as usize;
    let mut events = gen_events(r, n, insts, false);
    // concentrate the data on few instruments so that bursts land on consecutive ticks
    for e in events.iter_mut() {
        if let EvSpec::Trade { inst, .. } | EvSpec::L1 { inst, .. } | EvSpec::Other { inst, .. } = e {
            if r.chance(2, 3) {
                *inst = if topo == 2 { 3 } else { 0 };
            }
        }
    }
    let params = (0..nbt)
        .map(|b| {
            let burst = [2u32, 3, 5][(i + b) % 3];
            Params {
                k: 1 + r.below(2),
                m: 3 + r.below(3),
                max_units: burst * (1 + r.below(3) as u32),
                lot_milli: *r.pick(&[1000i64, 500, 250]),
                burst,
                fatal: None,
            }
        })
        .collect();
    Scenario {
        paced: i % 5 != 4,
        topo,
        latency_ms: *r.pick(&[0u64, 0, 1]),
        fee_bp: 10,
        quote_balance: 1_000_000,
        base_balance: 1_000,
        events,
        params,
        workers: vec![1000, 99, *r.pick(&[1usize, 2]), 8],
        ids: *r.pick(&[0u8, 1, 2]),
        slow_ms: 0,
        fail: None,
    }
}

/// batches of 11..=16 backtests over a small dataset, ids numeric and not padded ("10" sorts
/// before "2"), reverse-sorted, unsorted or all equal; the strategy parameters (hence the run
/// times, hence the completion order) differ per backtest. What comes back at position i must
/// be backtest i's own summary.
fn gen_big_batch(r: &mut Rng, paced: bool, ids: u8) -> Scenario {
    let n = 2 + r.below(7) as usize;
    let nbt = 11 + r.below(6) as usize;
    let mut params = gen_params(r, nbt);
    for (i, p) in params.iter_mut().enumerate() {
        // spread the amount of work: early backtests trade on every event, late ones rarely
        p.k = 1 + (i as u64 * 5) % 4;
        p.m = 2 + (i as u64 * 3) % 5;
    }
    Scenario {
        paced,
        topo: 0,
        latency_ms: *r.pick(&[0u64, 0, 1]),
        fee_bp: 10,
        quote_balance: 1_000_000,
        base_balance: 1_000,
        events: gen_events(r, n, 2, false),
        params,
        workers: vec![*r.pick(&[1usize, 2]), 8],
        ids,
        slow_ms: 0,
        fail: None,
    }
}

fn gen_fatal(r: &mut Rng, max_ev: usize) -> Scenario {
    let n = 2 + r.below(max_ev as u64) as usize;
    let topo = *r.pick(&[1u8, 1, 2]);
    let fslot = if topo == 2 { *r.pick(&[2usize, 4]) } else { 2 };
    let mut events = gen_events(r, n, if topo == 2 { 5 } else { 3 }, false);
    // make sure the unlinked instrument (slot 2) receives events
    let t_last = events
        .iter()
        .filter_map(|e| match e {
            EvSpec::Trade { t, .. } | EvSpec::L1 { t, .. } | EvSpec::Other { t, .. } => Some(*t),
            _ => None,
        })
        .max()
        .unwrap_or(0);
    let pos = r.below(events.len() as u64 + 1) as usize;
    events.insert(
        pos.min(events.len()),
        EvSpec::Trade { inst: fslot, t: (t_last / 120_000) * 60_000, ns: 0, px4: 300, am4: 4, buy: true },
    );
    let on_slot2 = events
        .iter()
        .filter(|e| {
            matches!(e, EvSpec::Trade { inst, .. } | EvSpec::L1 { inst, .. } | EvSpec::Other { inst, .. } if *inst == fslot)
        })
        .count() as u64;
    let mut params = gen_params(r, 1);
    params[0].fatal = Some((fslot, 1 + r.below(on_slot2)));
    Scenario {
        paced: false,
        topo,
        latency_ms: 0,
        fee_bp: 10,
        quote_balance: 1_000_000,
        base_balance: 1_000,
        events,
        params,
        workers: vec![],
        ids: 0,
        slow_ms: 0,
        fail: None,
    }
}

/// exhaustive small domain: every dataset length 1..=4 over {trade on instrument 0, trade on
/// instrument 1, L1, reconnecting} compositions chosen by position pattern, both feed modes, one
/// and two backtests, and the fatal tick at every position
/// slow sources: the dataset takes `ms` of wall-clock to arrive. Whatever `backtest()` does while
/// waiting for the market stream to end, it must not give up on it.
fn slow_scenarios(thorough: bool) -> Vec<Scenario> {
    let mk = |ms: u64, n: usize, nbt: usize, workers: Vec<usize>| Scenario {
        paced: false,
        topo: 0,
        latency_ms: 0,
        fee_bp: 10,
        quote_balance: 1_000_000,
        base_balance: 1_000,
        events: (0..n)
            .map(|i| EvSpec::Trade {
                inst: i % 2,
                t: 3_600_000 * (i as i64 + 1),
                ns: 0,
                px4: 400 + 4 * i as i64,
                am4: 4,
                buy: true,
            })
            .collect(),
        params: (0..nbt)
            .map(|i| Params { k: 1 + i as u64, m: 3 + i as u64, max_units: 2, lot_milli: 1000, burst: 1, fatal: None })
            .collect(),
        workers,
        ids: 1,
        slow_ms: ms,
        fail: None,
    };
    let mut v = vec![mk(6_500, 6, 2, vec![2])];
    if thorough {
        v.push(mk(12_000, 8, 1, vec![2]));
        v.push(mk(35_000, 7, 1, vec![]));
    }
    v
}

/// dataset lengths at and around typical batch / buffer / power-of-two boundaries: cheap
/// trade-only datasets, plain feed, one backtest run alone (the schedule independent fact
/// "market events processed == dataset, in order, each once" is what is at stake), plus
/// concurrent batches sharing one 128-event dataset under both feeds
fn boundary_lengths(em: &mut Emitter, thorough: bool) {
    let mk = |len: usize| -> Vec<EvSpec> {
        (0..len)
            .map(|i| EvSpec::Trade {
                inst: i % 2,
                t: 60_000 * (i as i64 + 1),
                ns: 0,
                px4: 400 + (i as i64 * 7) % 31,
                am4: 1 + (i as i64 % 9),
                buy: i % 3 != 0,
            })
            .collect()
    };
    let base = |paced: bool, len: usize, nbt: usize, workers: Vec<usize>| Scenario {
        paced,
        topo: 0,
        latency_ms: 0,
        fee_bp: 10,
        quote_balance: 1_000_000,
        base_balance: 1_000,
        events: mk(len),
        params: (0..nbt)
            .map(|i| Params { k: 5 + 2 * i as u64, m: 7 + 4 * i as u64, max_units: 1 + i as u32, lot_milli: 1000, burst: 1, fatal: None })
            .collect(),
        workers,
        ids: 1,
        slow_ms: 0,
        fail: None,
    };
    let mut lens = vec![15usize, 16, 17, 31, 32, 63, 64, 65, 127, 128, 129, 192, 255, 256, 257];
    if thorough {
        lens.extend([511, 512, 513, 1000]);
    }
    for len in lens {
        emit(em, "table", &base(false, len, 1, vec![]));
    }
    // the next powers of two (chunked / yielding replays): light cases, an order on every 97th
    // event of an instrument at most
    let mut big = vec![1024usize, 1025, 2049];
    if thorough {
        big.extend([1023, 1026, 2048, 4096, 4097, 8193]);
    }
    for len in big {
        let mut sc = base(false, len, 1, vec![]);
        sc.params[0].k = 97;
        sc.params[0].m = 193;
        emit(em, "table", &sc);
    }
    {
        let mut sc = base(false, 1025, 2, vec![2]);
        for p in sc.params.iter_mut() {
            p.k = 97;
            p.m = 193;
        }
        emit(em, "table", &sc);
    }
    emit(em, "table", &base(false, 128, 3, vec![2, 8]));
    emit(em, "table", &base(true, 128, 2, vec![8]));
    emit(em, "table", &base(true, 64, 1, vec![]));
}

fn table(em: &mut Emitter) {
    let mk = |kinds: &[u8]| -> Vec<EvSpec> {
        let mut t = 0;
        kinds
            .iter()
            .enumerate()
            .map(|(i, k)| {
                t += 3_600_000;
                match k {
                    0 => EvSpec::Trade { inst: 0, t, ns: 0, px4: 400 + 8 * (i as i64 % 9), am4: 4, buy: true },
                    1 => EvSpec::Trade { inst: 1, t, ns: 0, px4: 200 - 4 * (i as i64 % 9), am4: 8, buy: false },
                    2 => EvSpec::L1 {
                        inst: 0,
                        t,
                        ns: 0,
                        bid4: 399 + 8 * (i as i64 % 9),
                        ask4: 401 + 8 * (i as i64 % 9),
                        bam4: 4,
                        aam4: 12,
                    },
                    3 => EvSpec::Reconnecting { slot: 0 },
                    // 4..=10: the remaining market item kinds (one-sided / empty L1, candle,
                    // liquidation, L2 snapshot, L2 update)
                    4..=10 => EvSpec::Other { inst: 0, t, ns: 0, kind: k - 4, px4: 400 + i as i64 },
                    // 11..: trades on slots 2, 3, 4 (topology 2)
                    _ => EvSpec::Trade { inst: (*k as usize) - 9, t, ns: 0, px4: 300 + 4 * (i as i64 % 9), am4: 4, buy: true },
                }
            })
            .collect()
    };
    let base = |paced: bool, events: Vec<EvSpec>, nbt: usize| Scenario {
        paced,
        topo: 0,
        latency_ms: 0,
        fee_bp: 10,
        quote_balance: 1_000_000,
        base_balance: 1_000,
        events,
        params: (0..nbt)
            .map(|i| Params { k: 1 + i as u64, m: 2 + i as u64, max_units: 1 + i as u32, lot_milli: 1000, burst: 1, fatal: None })
            .collect(),
        workers: vec![1, 2],
        ids: 0,
        slow_ms: 0,
        fail: None,
    };
    let patterns: Vec<Vec<u8>> = vec![
        vec![0],
        vec![2],
        vec![0, 0],
        vec![0, 1],
        vec![3, 0],
        vec![0, 3],
        vec![0, 0, 0],
        vec![0, 1, 0],
        vec![2, 0, 0],
        vec![0, 3, 0],
        vec![0, 0, 0, 0],
        vec![0, 1, 0, 1],
        vec![0, 2, 0, 3],
        vec![1, 0, 0, 0],
        // disconnect markers: several first, several in the middle, last, first and last
        vec![3, 3, 0],
        vec![0, 3, 3, 3, 0],
        vec![0, 0, 3],
        vec![3, 0, 3],
        // every market item kind once
        vec![0, 2, 4, 5, 6, 7, 8, 9, 10, 1],
        // markers at the positions a binary search over the dataset probes
        vec![0, 0, 0, 0, 3, 0, 0, 0],
        vec![0, 3, 0, 0, 0, 0, 0, 0],
        vec![0, 0, 0, 0, 3, 0, 0, 0, 0],
    ];
    let mut probe33 = vec![0u8; 33];
    probe33[16] = 3;
    probe33[24] = 3;
    for (i, k) in probe33.iter_mut().enumerate() {
        if *k == 0 && i % 5 == 2 {
            *k = 1;
        }
    }
    for paced in [false, true] {
        emit(em, "table", &base(paced, mk(&probe33), 2));
    }
    // three exchanges, the link-less one (perpetual + future) in the middle, two mocks
    for paced in [false, true] {
        let mut sc = base(paced, mk(&[0, 12, 11, 13, 1, 12, 3, 0, 12, 11, 12], ), 3);
        sc.topo = 2;
        emit(em, "table", &sc);
    }
    // ties, decreasing and sub-millisecond-apart exchange times (time-sorting or truncating to
    // milliseconds reorders / merges them)
    for paced in [false, true] {
        let t = 3_600_000;
        let tr = |ns: i64, px4: i64, t: i64| EvSpec::Trade { inst: 0, t, ns, px4, am4: 4, buy: true };
        let events = vec![
            tr(999_999, 400, t),
            tr(1, 404, t),
            tr(1, 408, t),
            tr(1_000_000, 412, t),
            tr(0, 416, t),
            tr(999, 420, t),
            tr(0, 424, 2 * t),
            tr(0, 428, t),
            tr(500, 432, 2 * t),
        ];
        emit(em, "table", &base(paced, events, 2));
    }
    // bursts: 2, 3 and 5 orders for one instrument on one tick, on consecutive ticks; alone and in
    // a batch, on current_thread and multi_thread runtimes; also on the second mock (Okx: one
    // instrument on that exchange)
    for burst in [2u32, 3, 5] {
        for topo in [0u8, 2] {
            let pat: Vec<u8> = if topo == 2 { vec![12, 12, 0, 12, 12, 12, 0] } else { vec![0, 0, 0, 1, 0, 0] };
            let mut sc = base(true, mk(&pat), 3);
            sc.topo = topo;
            for (i, p) in sc.params.iter_mut().enumerate() {
                p.k = 1;
                p.m = 4 + i as u64;
                p.burst = burst;
                p.max_units = burst * (2 + i as u32);
                p.lot_milli = [1000i64, 500, 250][i % 3];
            }
            sc.workers = vec![1000, 99, 2, 8];
            emit(em, "table", &sc);
        }
    }
    // failing source: the stream of one backtest panics after 0, 2 or 4 of 5 events; that backtest
    // alone, its healthy siblings alone, and all together in batches sharing the arguments
    for k in [0usize, 2, 4] {
        for (nbt, f) in [(1usize, 0usize), (3, 1)] {
            let mut sc = base(false, mk(&[0, 1, 0, 0, 1]), nbt);
            sc.fail = Some((f, k));
            sc.workers = vec![99, 2];
            emit(em, "table", &sc);
        }
    }
    // twins: backtests 2k and 2k+1 share id, parameters and risk-free rate
    for paced in [false, true] {
        let mut sc = base(paced, mk(&[0, 0, 1, 0, 0]), 6);
        sc.ids = 5;
        sc.workers = vec![2, 8];
        emit(em, "table", &sc);
    }
    for p in &patterns {
        for paced in [false, true] {
            for nbt in [1usize, 2] {
                emit(em, "table", &base(paced, mk(p), nbt));
            }
        }
    }
    // a batch of 12 with ids "0".."11" (and the other id schemes): position i <-> backtest i
    for (paced, ids) in [(false, 1u8), (true, 1), (true, 2), (false, 3), (true, 4)] {
        let mut sc = base(paced, mk(&[0, 0, 1, 0]), 12);
        for (i, p) in sc.params.iter_mut().enumerate() {
            p.k = 1 + (i as u64 % 3);
            p.m = 2 + (i as u64 % 4);
            p.max_units = 1 + (i as u32 % 3);
            p.lot_milli = [1000i64, 500, 250, 2000][i % 4];
        }
        sc.ids = ids;
        sc.workers = vec![2, 8];
        emit(em, "table", &sc);
    }
    // fatal tick at every position of a 4-event dataset on the unlinked instrument
    for c in 1..=4u64 {
        let mut t = 0;
        let events: Vec<EvSpec> = (0..4)
            .map(|i| {
                t += 3_600_000;
                EvSpec::Trade { inst: 2, t, ns: 0, px4: 300 + i, am4: 4, buy: true }
            })
            .collect();
        let mut sc = base(false, events, 1);
        sc.topo = 1;
        sc.workers = vec![];
        sc.params[0].fatal = Some((2, c));
        emit(em, "table", &sc);
    }
}

fn main() {
    if std::env::var("C20_DEBUG").is_err() {
        quiet_panics();
    }
    let args = parse_args();
    let mut em = Emitter::create(&args.out);
    match args.mode.as_str() {
        "gen" => {
            let mut r = Rng::new(args.seed);
            let thorough = args.tier == "thorough";
            let n_big = if thorough { 30 } else { 10 };
            let n_fail = if thorough { 30 } else { 8 };
            let n_burst = if thorough { 80 } else { 24 };
            let (n_paced, n_plain, n_adv, n_fatal, max_ev, max_bt) =
                if thorough { (160, 60, 80, 40, 60, 32) } else { (60, 20, 30, 12, 24, 8) };
            // the slow-source cases run on their own threads while the other cases are produced
            // (their runs wait on real-time sleeps) and are emitted last
            let slow: Vec<_> = slow_scenarios(thorough)
                .into_iter()
                .map(|sc| {
                    let sc2 = sc.clone();
                    (sc, std::thread::spawn(move || compute(&sc2)))
                })
                .collect();
            table(&mut em);
            boundary_lengths(&mut em, thorough);
            for _ in 0..n_paced {
                let sc = gen_scenario(&mut r, true, max_ev, max_bt, false);
                emit(&mut em, "random", &sc);
            }
            for _ in 0..n_plain {
                let sc = gen_scenario(&mut r, false, max_ev * 4, max_bt, false);
                emit(&mut em, "random", &sc);
            }
            for i in 0..n_adv {
                let sc = gen_scenario(&mut r, i % 2 == 0, max_ev, max_bt.min(4), true);
                emit(&mut em, "adversarial", &sc);
            }
            for i in 0..n_burst {
                let sc = gen_burst(&mut r, i);
                emit(&mut em, "random", &sc);
            }
            for _ in 0..n_fail {
                let mut sc = gen_scenario(&mut r, false, max_ev, 6, false);
                let f = r.below(sc.params.len() as u64) as usize;
                let k = r.below(sc.events.len() as u64) as usize;
                sc.fail = Some((f, k));
                emit(&mut em, "adversarial", &sc);
            }
            for i in 0..n_big {
                let sc = gen_big_batch(&mut r, i % 3 != 2, [1u8, 2, 1, 3, 1, 4, 0][i % 7]);
                emit(&mut em, "random", &sc);
            }
            for _ in 0..n_fatal {
                let sc = gen_fatal(&mut r, max_ev);
                emit(&mut em, "adversarial", &sc);
            }
            for (sc, handle) in slow {
                match handle.join() {
                    Ok(computed) => emit_computed(&mut em, "table", &sc, computed),
                    Err(_) => emit(&mut em, "table", &sc),
                }
            }
        }
        "exec" => {
            let inputs = read_inputs(args.input.as_deref().expect("--in"));
            // slow-source inputs spend their time in real-time sleeps: run them side by side
            // (32 at a time) before the others, emit everything in input order
            let mut pre: HashMap<usize, (Vec<String>, Vec<RunObs>, bool)> = HashMap::new();
            let slow_idx: Vec<usize> = inputs
                .iter()
                .enumerate()
                .filter(|(_, (inp, _))| {
                    let sc = Scenario::from_json(inp);
                    sc.slow_ms > 0
                        && !sc.paced
                        && !sc.params.is_empty()
                        && sc.events.iter().any(|e| !matches!(e, EvSpec::Reconnecting { .. }))
                })
                .map(|(i, _)| i)
                .collect();
            for chunk in slow_idx.chunks(32) {
                let handles: Vec<_> = chunk
                    .iter()
                    .map(|&i| {
                        let sc = Scenario::from_json(&inputs[i].0);
                        (i, std::thread::spawn(move || compute(&sc)))
                    })
                    .collect();
                for (i, h) in handles {
                    if let Ok(c) = h.join() {
                        pre.insert(i, c);
                    }
                }
            }
            for (idx, (inp, stream)) in inputs.iter().enumerate() {
                let sc = Scenario::from_json(inp);
                if let Some(c) = pre.remove(&idx) {
                    emit_computed(&mut em, stream_static(stream), &sc, c);
                    continue;
                }
                if !sc.events.iter().any(|e| !matches!(e, EvSpec::Reconnecting { .. })) || sc.params.is_empty() {
                    // MarketDataInMemory cannot be constructed without a market item: outside
                    // the input requirement, emit a case that is not judged
                    em.emit(Case {
                        stream: stream_static(stream),
                        input: inp.clone(),
                        coq: "(mkCase false None false [] true 0%N [])".to_string(),
                        nontrivial: false,
                        tags: vec!["not_judged_empty".into()],
                    });
                    continue;
                }
                emit(&mut em, stream_static(stream), &sc);
            }
        }
        m => panic!("unknown mode {m}"),
    }
    em.finish();
}
