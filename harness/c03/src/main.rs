//! C03 correspondence harness: order requests through the real `Engine` — sent => delivered once
//! on the right execution link and in flight; failed / refused => neither; trading gate.
//! The machinery (spec, stubs, observation, Coq printers) is in `vh-engine`.
use serde_json::Value;
use vh_common::*;
use vh_engine::*;

const STRAT: u32 = 7;

fn key(ex: usize, inst: usize, cid: u32) -> KeyS {
    KeyS { ex, inst, strat: STRAT, cid }
}
fn meta(oid: u32, t: i64, filled: D4) -> MetaS {
    MetaS { oid, t, filled }
}
fn order(ex: usize, inst: usize, cid: u32, st: StS) -> OrderS {
    OrderS {
        // two strategies' orders live side by side on one instrument
        key: KeyS { ex, inst, strat: if cid % 3 == 0 { STRAT + 1 } else { STRAT }, cid },
        buy: cid % 2 == 0,
        price: 1_002_500,
        qty: 20_000,
        kind: 1,
        tif: (cid % 5) as u8,
        st,
    }
}
fn open(ex: usize, inst: usize, cid: u32) -> OpenS {
    OpenS {
        key: key(ex, inst, cid),
        buy: cid % 2 == 1,
        price: 990_000 + 2500 * cid as i64,
        qty: 5_000 + 1000 * (cid as i64 % 7),
        kind: (cid % 2) as u8,
        tif: (cid % 5) as u8,
    }
}
fn cancel(ex: usize, inst: usize, cid: u32, id: Option<u32>) -> CancelS {
    CancelS { key: key(ex, inst, cid), id }
}
/// exchange times in ns: clusters less than 1 ms apart, around ms / s boundaries, exact ties, far
/// past and far future (a comparison at ms or s granularity must show)
const TIMES: [i64; 16] = [
    0, 1, 2, 999, 1_000, 999_999, 1_000_000, 1_000_001, 1_999_999, 2_000_000, 999_999_999, 1_000_000_000,
    1_000_000_001, 86_400_000_000_000, -1, -3_000_000_000_000_000,
];
fn pick_time(r: &mut Rng) -> i64 {
    *r.pick(&TIMES)
}
fn inst(ex: usize, base: &str, quote: &str, orders: Vec<OrderS>, pos: Option<PosS>, last: Option<(i64, D4)>) -> InstS {
    InstS { ex, base: base.into(), quote: quote.into(), orders, pos, last, kind: 0, csize: 0, settle: String::new(), l1: None }
}
fn no_close() -> CloseS {
    CloseS::Scripted { cancels: vec![], opens: vec![] }
}

fn emit(em: &mut Emitter, stream: &'static str, spec: &Spec, extra_tags: &[&str]) {
    let ran = match catch(std::panic::AssertUnwindSafe(|| run(spec))) {
        Ok(r) => r,
        Err(msg) => {
            eprintln!("harness-level panic: {msg}");
            panicked()
        }
    };
    let mut tags = ran.tags;
    tags.extend(extra_tags.iter().map(|s| s.to_string()));
    em.emit(Case {
        stream,
        input: serde_json::to_value(spec).expect("spec to json"),
        coq: ran.coq,
        nontrivial: ran.nontrivial,
        tags,
    });
}

// ---- exhaustive table -------------------------------------------------------------------------

fn fixture(trading: bool, link0: Option<LinkS>) -> Spec {
    let links = match link0 {
        Some(l) => vec![l, LinkS::Open],
        None => vec![LinkS::Open, LinkS::Open], // the request under test names exchange index 7
    };
    Spec {
        builder: false,
        exset: 0,
        trading,
        links,
        instruments: vec![
            InstS {
                ex: 0,
                base: "a".into(),
                quote: "b".into(),
                orders: vec![
                    order(0, 0, 1, StS::Oif),
                    order(0, 0, 2, StS::Open(meta(12, 5, 5_000))),
                    order(0, 0, 3, StS::Cif(None)),
                    order(0, 0, 4, StS::Cif(Some(meta(14, 6, 0)))),
                ],
                pos: Some(PosS { buy: true, qty: 15_000, qty_max: 20_000 }),
                last: Some((10, 1_002_500)),
                kind: 1,
                csize: 10,
                settle: "c".into(),
                l1: None,
            },
            InstS {
                ex: 1,
                base: "a".into(),
                quote: "b".into(),
                orders: vec![order(1, 1, 1, StS::Open(meta(21, 3, 0)))],
                pos: None,
                last: None,
                kind: 0,
                csize: 0,
                settle: String::new(),
                l1: None,
            },
        ],
        steps: vec![],
    }
}

/// the request under test (Left = cancel, Right = open), aimed at exchange `ex`, instrument 0
fn under_test(kind: usize, ex: usize) -> (Option<CancelS>, Option<OpenS>) {
    match kind {
        0 => (Some(cancel(ex, 0, 1, None)), None),
        1 => (Some(cancel(ex, 0, 2, Some(12))), None),
        2 => (Some(cancel(ex, 0, 3, None)), None),
        3 => (Some(cancel(ex, 0, 4, Some(14))), None),
        4 => (Some(cancel(ex, 0, 9, None)), None),
        5 => (None, Some(open(ex, 0, 20))),
        _ => (None, Some(open(ex, 0, 2))),
    }
}

fn table(em: &mut Emitter) {
    let stats = [Some(LinkS::Open), Some(LinkS::Closed), Some(LinkS::Unhealthy), Some(LinkS::Missing), None];
    for (si, stat) in stats.iter().enumerate() {
        let ex = if stat.is_none() { 7 } else { 0 };
        for kind in 0..7 {
            let (uc, uo) = under_test(kind, ex);
            // companions on the healthy link 1 / instrument 1, placed AFTER the request under test
            let cancels: Vec<CancelS> = uc.iter().cloned().chain([cancel(1, 1, 1, Some(21))]).collect();
            let opens: Vec<OpenS> = uo.iter().cloned().chain([open(1, 1, 30)]).collect();
            let algo = |approve: bool| GS {
                cancels: cancels.clone(),
                opens: opens.clone(),
                cmask: if uc.is_some() { vec![approve, true] } else { vec![true] },
                omask: if uo.is_some() { vec![approve, true] } else { vec![true] },
            };
            let follow = StepS {
                op: OpS::Process(EvS::OrderSnapshot {
                    order: order(1, 1, 30, StS::Oif),
                    snap: SnapS::Open(meta(130, 9, 0)),
                }),
                g: GS::default(),
                close: no_close(),
                many1: false,
            };
            let tag = format!("table_link{}_kind{}", si, kind);
            for approve in [true, false] {
                // P0: a market event while enabled
                let mut s = fixture(true, *stat);
                s.steps = vec![
                    StepS {
                        op: OpS::Process(EvS::MarketTrade { inst: 1, t: 4, price: 505_000 }),
                        g: algo(approve),
                        close: no_close(),
                        many1: false,
                    },
                    follow.clone(),
                ];
                emit(em, "table", &s, &[&tag, "path_enabled_event"]);
                // P1: re-enabling generates on that very event
                let mut s = fixture(false, *stat);
                s.steps = vec![StepS { op: OpS::Process(EvS::Trading(true)), g: algo(approve), close: no_close(), many1: false }];
                emit(em, "table", &s, &[&tag, "path_enable_event"]);
                // P2: generate_algo_orders() called directly
                let mut s = fixture(false, *stat);
                s.steps = vec![StepS { op: OpS::Generate, g: algo(approve), close: no_close(), many1: false }];
                emit(em, "table", &s, &[&tag, "path_direct_generate"]);
            }
            // command paths (no risk check). The algo script holds one extra open for link 1.
            let cmd = if uc.is_some() { CmdS::SendCancels(cancels.clone()) } else { CmdS::SendOpens(opens.clone()) };
            let extra = GS { cancels: vec![], opens: vec![open(1, 1, 40)], cmask: vec![], omask: vec![true] };
            for trading in [false, true] {
                let mut s = fixture(trading, *stat);
                s.steps = vec![
                    StepS { op: OpS::Process(EvS::Command(cmd.clone())), g: extra.clone(), close: no_close(), many1: false },
                    follow.clone(),
                ];
                emit(em, "table", &s, &[&tag, if trading { "path_command_enabled" } else { "path_command_disabled" }]);
            }
            let mut s = fixture(false, *stat);
            s.steps = vec![StepS { op: OpS::Action(cmd.clone()), g: extra.clone(), close: no_close(), many1: false }];
            emit(em, "table", &s, &[&tag, "path_direct_action"]);
            // ClosePositions with a scripted ClosePositionsStrategy returning both lists
            let mut s = fixture(true, *stat);
            s.steps = vec![StepS {
                op: OpS::Process(EvS::Command(CmdS::ClosePositions(FilterS::None))),
                g: extra.clone(),
                close: CloseS::Scripted { cancels: cancels.clone(), opens: opens.clone() },
                many1: false,
            }];
            emit(em, "table", &s, &[&tag, "path_close_scripted"]);
            // P7: disabled => the script must stay unused, state still updated
            let mut s = fixture(false, *stat);
            s.steps = vec![
                StepS {
                    op: OpS::Process(EvS::MarketTrade { inst: 0, t: 11, price: 1_010_000 }),
                    g: algo(true),
                    close: no_close(),
                    many1: false,
                },
                StepS {
                    op: OpS::Process(EvS::CancelResponse { key: key(0, 0, 4), ok: false, err: (kind % 10) as u8 }),
                    g: algo(true),
                    close: no_close(),
                    many1: false,
                },
            ];
            emit(em, "table", &s, &[&tag, "path_disabled_event"]);
        }
    }
}

/// three exchanges with the link-less one in the MIDDLE: requests naming the link-less exchange
/// must fail fatally, requests naming the linked exchange behind it must reach exactly its link
fn table_middle(em: &mut Emitter) {
    use LinkS::{Closed, Missing, Open, Unhealthy};
    // (link table, built through the public ExecutionBuilder?)
    let topologies: Vec<(Vec<LinkS>, bool)> = vec![
        (vec![Open, Missing, Open], false),
        (vec![Open, Closed, Open], false),
        (vec![Open, Unhealthy, Open], false),
        // ExecutionBuilder: add_mock only for the Open ones; link-less exchanges sort before linked ones
        (vec![Open, Missing, Open], true),
        (vec![Missing, Open, Open], true),
        (vec![Missing, Missing, Open], true),
        (vec![Missing, Open, Missing], true),
        (vec![Open, Open, Open], true),
    ];
    for (ti, (links, builder)) in topologies.iter().enumerate() {
        for (pi, path) in ["algo", "command", "action", "cancel_orders", "close_default", "trait_cancel", "hook_close"].iter().enumerate() {
            let mut s = Spec {
                builder: *builder,
                exset: ((pi + ti) % 3) as u8,
                trading: pi == 0,
                links: links.clone(),
                instruments: (0..3)
                    .map(|e| {
                        let mut i = inst(
                            e,
                            "a",
                            "b",
                            vec![order(e, e, 1, StS::Oif), order(e, e, 11, StS::Open(meta(111, 999_999, 0))), order(e, e, 111, StS::Cif(None))],
                            Some(PosS { buy: e != 1, qty: 10_000 + 2_500 * e as i64, qty_max: 30_000 }),
                            Some((1_000_000, 1_000_000 + 2_500 * e as i64)),
                        );
                        i.kind = e as u8; // spot, perpetual, future
                        i.csize = [10_000, 10, 1_000_000][e];
                        i.settle = ["b", "c", "b"][e].into();
                        i
                    })
                    .collect(),
                steps: vec![],
            };
            let cancels: Vec<CancelS> = (0..3).map(|e| cancel(e, e, 11, Some(111))).collect();
            let opens: Vec<OpenS> = (0..3).rev().map(|e| open(e, e, 40 + e as u32)).collect();
            let g = GS { cancels: cancels.clone(), opens: opens.clone(), cmask: vec![true; 3], omask: vec![true; 3] };
            let (op, gs, close) = match pi {
                0 => (OpS::Process(EvS::MarketOther { inst: 2, t: 5, kind: 1 }), g, no_close()),
                1 => (OpS::Process(EvS::Command(CmdS::SendOpens(opens.clone()))), GS::default(), no_close()),
                2 => (OpS::Action(CmdS::SendCancels(cancels.clone())), GS::default(), no_close()),
                3 => (OpS::Process(EvS::Command(CmdS::CancelOrders(FilterS::None))), GS::default(), no_close()),
                4 => (OpS::Action(CmdS::ClosePositions(FilterS::None)), GS::default(), CloseS::Default { strat: 9, cid_base: 1000 }),
                // the public trait method called directly, and a strategy hook calling it
                5 => (OpS::Call(CmdS::CancelOrders(FilterS::None)), GS::default(), no_close()),
                _ => (OpS::Hook((ti % 2) as u8, CmdS::ClosePositions(FilterS::None)), GS::default(), CloseS::Default { strat: 9, cid_base: 1000 }),
            };
            // the same step three times
            s.steps = vec![StepS { op, g: gs, close, many1: false }; 3];
            let tag = format!("table_middle_{}{}", path, if *builder { "_builder" } else { "" });
            emit(em, "table", &s, &[&tag]);
        }
    }
}

// ---- random / adversarial histories ----------------------------------------------------------------

struct Shadow {
    /// client order ids probably tracked, per instrument
    cids: Vec<Vec<u32>>,
    fresh: u32,
}

struct Layout {
    inst_ex: Vec<usize>,
    n_ex: usize,
}

fn pick_cid(r: &mut Rng, sh: &Shadow, inst: usize) -> u32 {
    if !sh.cids[inst].is_empty() && r.chance(7, 10) { *r.pick(&sh.cids[inst]) } else { 1 + r.below(12) as u32 }
}
fn pick_ex(r: &mut Rng, ly: &Layout, inst: usize, adversarial: bool) -> usize {
    if r.chance(if adversarial { 3 } else { 1 }, 10) { r.below(ly.n_ex as u64 + 2) as usize } else { ly.inst_ex[inst] }
}
fn gen_cancel(r: &mut Rng, sh: &Shadow, ly: &Layout, adversarial: bool) -> CancelS {
    let inst = r.below(ly.inst_ex.len() as u64) as usize;
    let cid = pick_cid(r, sh, inst);
    let id = if r.chance(1, 2) { Some(100 + cid) } else { None };
    cancel(pick_ex(r, ly, inst, adversarial), inst, cid, id)
}
fn gen_open(r: &mut Rng, sh: &mut Shadow, ly: &Layout, adversarial: bool) -> OpenS {
    let inst = r.below(ly.inst_ex.len() as u64) as usize;
    let cid = if r.chance(if adversarial { 5 } else { 2 }, 10) {
        pick_cid(r, sh, inst)
    } else {
        sh.fresh += 1;
        sh.fresh
    };
    if !sh.cids[inst].contains(&cid) {
        sh.cids[inst].push(cid);
    }
    let mut o = open(pick_ex(r, ly, inst, adversarial), inst, cid);
    o.qty = 2500 * r.below(9) as i64; // zero-quantity orders included
    o.kind = r.below(2) as u8;
    o.tif = r.below(5) as u8;
    o
}
fn gen_mask(r: &mut Rng, n: usize, adversarial: bool) -> Vec<bool> {
    let len = if adversarial && r.chance(1, 4) { r.below(n as u64 + 1) as usize } else { n };
    (0..len).map(|_| r.chance(3, 4)).collect()
}
fn gen_batch(r: &mut Rng, sh: &mut Shadow, ly: &Layout, adversarial: bool) -> (Vec<CancelS>, Vec<OpenS>) {
    let nc = *r.pick(&[0usize, 0, 1, 1, 2, 3, 4]);
    let no = *r.pick(&[0usize, 0, 1, 1, 2, 3, 4]);
    let mut cs: Vec<CancelS> = (0..nc).map(|_| gen_cancel(r, sh, ly, adversarial)).collect();
    let mut os: Vec<OpenS> = (0..no).map(|_| gen_open(r, sh, ly, adversarial)).collect();
    if adversarial {
        // duplicates inside one batch; a cancel and an open for the same client order id
        if !cs.is_empty() && r.chance(1, 3) {
            let d = r.pick(&cs).clone();
            cs.push(d);
        }
        if !os.is_empty() && r.chance(1, 3) {
            let d = r.pick(&os).clone();
            os.push(d);
        }
        if !os.is_empty() && r.chance(1, 3) {
            let o = r.pick(&os).clone();
            cs.push(CancelS { key: o.key.clone(), id: None });
        }
        // the same client order id on two DIFFERENT instruments inside one batch
        if ly.inst_ex.len() > 1 && !os.is_empty() && r.chance(1, 3) {
            let mut o = r.pick(&os).clone();
            o.key.inst = (o.key.inst + 1) % ly.inst_ex.len();
            o.key.ex = ly.inst_ex[o.key.inst];
            os.push(o);
        }
        if ly.inst_ex.len() > 1 && !cs.is_empty() && r.chance(1, 3) {
            let mut c = r.pick(&cs).clone();
            c.key.inst = (c.key.inst + 1) % ly.inst_ex.len();
            c.key.ex = ly.inst_ex[c.key.inst];
            cs.push(c);
        }
    }
    (cs, os)
}
fn gen_gs(r: &mut Rng, sh: &mut Shadow, ly: &Layout, adversarial: bool) -> GS {
    if r.chance(1, 5) {
        return GS::default();
    }
    let (cancels, opens) = gen_batch(r, sh, ly, adversarial);
    let cmask = gen_mask(r, cancels.len(), adversarial);
    let omask = gen_mask(r, opens.len(), adversarial);
    GS { cancels, opens, cmask, omask }
}
fn gen_filter(r: &mut Rng, ly: &Layout) -> FilterS {
    // keys may repeat (twice / three times): a filter is a list, not a set
    let rep = |r: &mut Rng, mut v: Vec<usize>| {
        if !v.is_empty() && r.chance(1, 3) {
            let x = *r.pick(&v);
            v.push(x);
            if r.chance(1, 2) {
                v.insert(0, x);
            }
        }
        v
    };
    match r.below(3) {
        0 => FilterS::None,
        1 => {
            let v = (0..ly.n_ex + 1).filter(|_| r.chance(1, 2)).collect();
            FilterS::Exchanges(rep(r, v))
        }
        _ => {
            let v = (0..ly.inst_ex.len()).filter(|_| r.chance(1, 2)).collect();
            FilterS::Instruments(rep(r, v))
        }
    }
}
fn gen_command(r: &mut Rng, sh: &mut Shadow, ly: &Layout, adversarial: bool) -> (CmdS, CloseS) {
    match r.below(4) {
        0 => {
            let (c, _) = gen_batch(r, sh, ly, adversarial);
            (CmdS::SendCancels(c), no_close())
        }
        1 => {
            let (_, o) = gen_batch(r, sh, ly, adversarial);
            (CmdS::SendOpens(o), no_close())
        }
        2 => {
            let close = if r.chance(1, 2) {
                CloseS::Default { strat: 9, cid_base: 1000 }
            } else {
                let (c, o) = gen_batch(r, sh, ly, adversarial);
                CloseS::Scripted { cancels: c, opens: o }
            };
            (CmdS::ClosePositions(gen_filter(r, ly)), close)
        }
        _ => (CmdS::CancelOrders(gen_filter(r, ly)), no_close()),
    }
}

/// an L1 book whose volume-weighted mid-price is an exact decimal (equal amounts, or 1:3), or a
/// one-sided / empty book
fn gen_l1(r: &mut Rng) -> L1S {
    let t = pick_time(r);
    let bp = 2500 * (380 + r.below(20) as i64);
    let ap = bp + 2500 * (1 + r.below(8) as i64);
    let a = 1_000 * (1 + r.below(9) as i64);
    match r.below(6) {
        0 => L1S { t, bid: None, ask: None },
        1 => L1S { t, bid: Some((bp, a)), ask: None },
        2 => L1S { t, bid: None, ask: Some((ap, a)) },
        3 => L1S { t, bid: Some((bp, a)), ask: Some((ap, 3 * a)) },
        _ => L1S { t, bid: Some((bp, a)), ask: Some((ap, a)) },
    }
}

fn gen_snap(r: &mut Rng, cid: u32) -> SnapS {
    match r.below(12) {
        0 => SnapS::Cancelled,
        1 => SnapS::FullyFilled,
        2 => SnapS::Expired,
        3 => SnapS::OpenFailed(r.below(10) as u8),
        4 => SnapS::Oif,
        5 => SnapS::Cif(if r.chance(1, 2) { None } else { Some(meta(100 + cid, pick_time(r), 0)) }),
        // filled may exceed the order quantity (slightly / far): the code keeps such an order tracked
        _ => SnapS::Open(meta(100 + cid, pick_time(r), *r.pick(&[0, 0, 5_000, 20_000, 20_001, 1_000_000]))),
    }
}
fn gen_snapshot_order(r: &mut Rng, sh: &mut Shadow, ly: &Layout, inst: usize) -> (OrderS, SnapS) {
    let cid = pick_cid(r, sh, inst);
    let mut o = order(ly.inst_ex[inst], inst, cid, StS::Oif);
    o.qty = *r.pick(&[20_000, 20_000, 20_000, 0]);
    let snap = gen_snap(r, cid);
    if matches!(snap, SnapS::Open(_) | SnapS::Oif | SnapS::Cif(_)) && !sh.cids[inst].contains(&cid) {
        sh.cids[inst].push(cid);
    }
    (o, snap)
}

fn gen_event(r: &mut Rng, sh: &mut Shadow, ly: &Layout, adversarial: bool) -> (EvS, CloseS) {
    let n = ly.inst_ex.len();
    let inst = r.below(n as u64) as usize;
    match r.below(28) {
        0 if adversarial => (EvS::Shutdown, no_close()),
        0 | 1 | 2 | 3 | 4 => {
            let (c, cl) = gen_command(r, sh, ly, adversarial);
            (EvS::Command(c), cl)
        }
        5 | 6 => (EvS::Trading(r.chance(1, 2)), no_close()),
        7 | 8 | 9 | 10 => {
            let (order, snap) = gen_snapshot_order(r, sh, ly, inst);
            (EvS::OrderSnapshot { order, snap }, no_close())
        }
        11 | 12 => {
            let cid = pick_cid(r, sh, inst);
            (
                EvS::CancelResponse { key: key(ly.inst_ex[inst], inst, cid), ok: r.chance(1, 2), err: r.below(10) as u8 },
                no_close(),
            )
        }
        13 | 14 => (
            EvS::Trade {
                inst,
                buy: r.chance(1, 2),
                qty: 5_000 * r.below(5) as i64, // zero-quantity fills included
                price: 1_000_000 + 2500 * r.below(20) as i64,
                fee: r.below(3) as i64 * 100,
            },
            no_close(),
        ),
        15 => (EvS::AccountReconnecting, no_close()),
        16 => (EvS::MarketReconnecting, no_close()),
        17 | 18 => {
            // full account snapshot: 0-4 order snapshots over ascending instruments (grouped per instrument)
            let mut orders = vec![];
            for i in 0..n {
                for _ in 0..r.below(3) {
                    orders.push(gen_snapshot_order(r, sh, ly, i));
                }
            }
            (EvS::AccountSnapshot { orders, balances: r.chance(1, 2) }, no_close())
        }
        19 => (EvS::BalanceSnapshot { total: 10_000 * (1 + r.below(9) as i64), t: pick_time(r) }, no_close()),
        20 | 21 | 22 => (EvS::MarketL1 { inst, t: pick_time(r), l1: gen_l1(r) }, no_close()),
        23 => (EvS::MarketOther { inst, t: pick_time(r), kind: r.below(4) as u8 }, no_close()),
        _ => (EvS::MarketTrade { inst, t: pick_time(r), price: 2500 * (380 + r.below(40) as i64) }, no_close()),
    }
}

fn gen_link(r: &mut Rng, adversarial: bool) -> LinkS {
    let k = r.below(20);
    let dead = if adversarial { 10 } else { 6 };
    if k >= dead {
        LinkS::Open
    } else {
        *r.pick(&[LinkS::Closed, LinkS::Closed, LinkS::Unhealthy, LinkS::Missing, LinkS::Missing])
    }
}

fn gen_history(r: &mut Rng, max_steps: u64, adversarial: bool) -> Spec {
    let n_ex = 1 + r.below(3) as usize;
    let n_inst = n_ex + r.below((5 - n_ex) as u64) as usize;
    let mut exs: Vec<usize> = (0..n_inst).map(|j| j % n_ex).collect();
    exs.sort();
    let assets = ["a", "b", "c"];
    let mut sh = Shadow { cids: vec![vec![]; n_inst], fresh: 20 };
    let mut instruments = vec![];
    for (j, ex) in exs.iter().enumerate() {
        let bi = r.below(3) as usize;
        let qi = (bi + 1 + r.below(2) as usize) % 3;
        let mut orders = vec![];
        for _ in 0..r.below(4) {
            let cid = 1 + r.below(8) as u32;
            if sh.cids[j].contains(&cid) {
                continue;
            }
            sh.cids[j].push(cid);
            let st = match r.below(4) {
                0 => StS::Oif,
                1 => StS::Open(meta(100 + cid, pick_time(r), *r.pick(&[0, 5_000]))),
                2 => StS::Cif(None),
                _ => StS::Cif(Some(meta(100 + cid, pick_time(r), 0))),
            };
            orders.push(order(*ex, j, cid, st));
        }
        instruments.push(InstS {
            ex: *ex,
            base: assets[bi].into(),
            quote: assets[qi].into(),
            orders,
            pos: match r.below(3) {
                0 => None,
                k => {
                    // zero-size and (adversarial) negative-size positions included
                    let q = if adversarial && r.chance(1, 8) { -5_000 } else { 5_000 * r.below(5) as i64 };
                    Some(PosS { buy: k == 1, qty: q, qty_max: q.abs() + 5_000 })
                }
            },
            last: if r.chance(2, 3) { Some((pick_time(r), 2500 * (390 + r.below(20) as i64))) } else { None },
            kind: r.below(4) as u8,
            csize: *r.pick(&[10_000, 10, 100, 1_000_000]),
            settle: if r.chance(1, 2) { assets[qi].into() } else { assets[3 - bi - qi].into() },
            l1: if r.chance(1, 4) { Some(gen_l1(r)) } else { None },
        });
    }
    let n_links = (n_ex as i64 + *r.pick(&[-1i64, 0, 0, 0, 1])).max(0) as usize;
    let builder = r.chance(1, 4);
    let n_links = if builder { n_ex } else { n_links };
    let links: Vec<LinkS> = (0..n_links)
        .map(|_| {
            let l = gen_link(r, adversarial);
            // through ExecutionBuilder a link is either there (add_mock) or not
            if builder && l != LinkS::Open { LinkS::Missing } else { l }
        })
        .collect();
    let ly = Layout { inst_ex: exs.clone(), n_ex };
    let n_steps = 3 + r.below(max_steps - 2);
    let mut steps = vec![];
    for _ in 0..n_steps {
        let g = gen_gs(r, &mut sh, &ly, adversarial);
        let (op, close) = match r.below(20) {
            0 => (OpS::Generate, no_close()),
            1 => {
                let (c, cl) = gen_command(r, &mut sh, &ly, adversarial);
                (OpS::Action(c), cl)
            }
            2 if n_links > 0 && !builder => {
                let st = *r.pick(&[LinkS::Open, LinkS::Open, LinkS::Closed, LinkS::Unhealthy, LinkS::Missing]);
                (OpS::SetLink(r.below(n_links as u64) as usize, st), no_close())
            }
            3 => {
                // the public trait methods called directly on the Engine
                let f = gen_filter(r, &ly);
                if r.chance(1, 2) {
                    (OpS::Call(CmdS::CancelOrders(f)), no_close())
                } else {
                    (OpS::Call(CmdS::ClosePositions(f)), CloseS::Default { strat: 9, cid_base: 1000 })
                }
            }
            4 => {
                // a strategy hook (on_disconnect / on_trading_disabled) calling them
                let f = gen_filter(r, &ly);
                let h = r.below(3) as u8;
                if r.chance(1, 2) {
                    (OpS::Hook(h, CmdS::CancelOrders(f)), no_close())
                } else {
                    (OpS::Hook(h, CmdS::ClosePositions(f)), CloseS::Default { strat: 9, cid_base: 1000 })
                }
            }
            _ => {
                let (e, cl) = gen_event(r, &mut sh, &ly, adversarial);
                (OpS::Process(e), cl)
            }
        };
        let many1 = r.chance(1, 6);
        // hook steps carry an empty strategy script
        let g = if matches!(op, OpS::Hook(..)) { GS::default() } else { g };
        steps.push(StepS { op, g, close, many1 });
        if adversarial && r.chance(1, 8) {
            // the same operation (and script) three times in a row
            let last = steps.last().unwrap().clone();
            steps.push(last.clone());
            steps.push(last);
        }
    }
    Spec { builder, exset: r.below(3) as u8, trading: r.chance(2, 3), links, instruments, steps }
}

fn main() {
    quiet_panics();
    let args = parse_args();
    let mut em = Emitter::create(&args.out);
    match args.mode.as_str() {
        "gen" => {
            let mut r = Rng::new(args.seed);
            let (n_rand, n_adv, max_steps) = if args.tier == "thorough" { (2000, 1000, 30) } else { (170, 90, 16) };
            table(&mut em);
            table_middle(&mut em);
            for _ in 0..n_rand {
                let s = gen_history(&mut r, max_steps, false);
                emit(&mut em, "random", &s, &[]);
            }
            for _ in 0..n_adv {
                let s = gen_history(&mut r, max_steps, true);
                emit(&mut em, "adversarial", &s, &[]);
            }
        }
        "exec" => {
            for (inp, stream) in read_inputs(args.input.as_deref().expect("--in")) {
                let spec: Result<Spec, _> = serde_json::from_value::<Spec>(inp.clone());
                match spec {
                    Ok(s) if !s.instruments.is_empty() => emit(&mut em, stream_static(&stream), &s, &[]),
                    _ => {
                        // not a runnable input (e.g. produced by shrinking): report a trivially true case
                        em.emit(Case {
                            stream: stream_static(&stream),
                            input: if inp.is_null() { Value::Null } else { inp },
                            coq: "(mkCase (mkState false [] []) [])".into(),
                            nontrivial: false,
                            tags: vec!["unrunnable_input".into()],
                        });
                    }
                }
            }
        }
        m => panic!("unknown mode {m}"),
    }
    em.finish();
}
