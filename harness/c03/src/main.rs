//! C03 correspondence harness: order requests through the real `Engine` — sent => delivered once
//! on the right execution link and in flight; failed / refused => neither; trading gate.
//! The machinery (spec, stubs, observation, Coq printers) is in `vh-engine`.
use serde_json::Value;
use vh_common::*;
use vh_engine::*;

const STRAT: u32 = 7;

fn key(ex: usize, inst: usize, cid: u32) -> KeyS {
    KeyS { ex, inst, strat: STRAT, cid }
}
fn meta(oid: u32, t: i64, filled: D4) -> MetaS {
    MetaS { oid, t, filled }
}
fn order(ex: usize, inst: usize, cid: u32, st: StS) -> OrderS {
    OrderS {
        key: key(ex, inst, cid),
        buy: cid % 2 == 0,
        price: 1_002_500,
        qty: 20_000,
        kind: 1,
        tif: (cid % 5) as u8,
        st,
    }
}
fn open(ex: usize, inst: usize, cid: u32) -> OpenS {
    OpenS {
        key: key(ex, inst, cid),
        buy: cid % 2 == 1,
        price: 990_000 + 2500 * cid as i64,
        qty: 5_000 + 1000 * (cid as i64 % 7),
        kind: (cid % 2) as u8,
        tif: (cid % 5) as u8,
    }
}
fn cancel(ex: usize, inst: usize, cid: u32, id: Option<u32>) -> CancelS {
    CancelS { key: key(ex, inst, cid), id }
}
fn no_close() -> CloseS {
    CloseS::Scripted { cancels: vec![], opens: vec![] }
}

fn emit(em: &mut Emitter, stream: &'static str, spec: &Spec, extra_tags: &[&str]) {
    let ran = match catch(std::panic::AssertUnwindSafe(|| run(spec))) {
        Ok(r) => r,
        Err(_) => panicked(),
    };
    let mut tags = ran.tags;
    tags.extend(extra_tags.iter().map(|s| s.to_string()));
    em.emit(Case {
        stream,
        input: serde_json::to_value(spec).expect("spec to json"),
        coq: ran.coq,
        nontrivial: ran.nontrivial,
        tags,
    });
}

// ---- exhaustive table -------------------------------------------------------------------------

fn fixture(trading: bool, link0: Option<LinkS>) -> Spec {
    let links = match link0 {
        Some(l) => vec![l, LinkS::Open],
        None => vec![LinkS::Open, LinkS::Open], // the request under test names exchange index 7
    };
    Spec {
        trading,
        links,
        instruments: vec![
            InstS {
                ex: 0,
                base: "a".into(),
                quote: "b".into(),
                orders: vec![
                    order(0, 0, 1, StS::Oif),
                    order(0, 0, 2, StS::Open(meta(12, 5, 5_000))),
                    order(0, 0, 3, StS::Cif(None)),
                    order(0, 0, 4, StS::Cif(Some(meta(14, 6, 0)))),
                ],
                pos: Some(PosS { buy: true, qty: 15_000, qty_max: 20_000 }),
                last: Some((10, 1_002_500)),
            },
            InstS {
                ex: 1,
                base: "a".into(),
                quote: "b".into(),
                orders: vec![order(1, 1, 1, StS::Open(meta(21, 3, 0)))],
                pos: None,
                last: None,
            },
        ],
        steps: vec![],
    }
}

/// the request under test (Left = cancel, Right = open), aimed at exchange `ex`, instrument 0
fn under_test(kind: usize, ex: usize) -> (Option<CancelS>, Option<OpenS>) {
    match kind {
        0 => (Some(cancel(ex, 0, 1, None)), None),
        1 => (Some(cancel(ex, 0, 2, Some(12))), None),
        2 => (Some(cancel(ex, 0, 3, None)), None),
        3 => (Some(cancel(ex, 0, 4, Some(14))), None),
        4 => (Some(cancel(ex, 0, 9, None)), None),
        5 => (None, Some(open(ex, 0, 20))),
        _ => (None, Some(open(ex, 0, 2))),
    }
}

fn table(em: &mut Emitter) {
    let stats = [Some(LinkS::Open), Some(LinkS::Closed), Some(LinkS::Unhealthy), Some(LinkS::Missing), None];
    for (si, stat) in stats.iter().enumerate() {
        let ex = if stat.is_none() { 7 } else { 0 };
        for kind in 0..7 {
            let (uc, uo) = under_test(kind, ex);
            // companions on the healthy link 1 / instrument 1, placed AFTER the request under test
            let cancels: Vec<CancelS> = uc.iter().cloned().chain([cancel(1, 1, 1, Some(21))]).collect();
            let opens: Vec<OpenS> = uo.iter().cloned().chain([open(1, 1, 30)]).collect();
            let algo = |approve: bool| GS {
                cancels: cancels.clone(),
                opens: opens.clone(),
                cmask: if uc.is_some() { vec![approve, true] } else { vec![true] },
                omask: if uo.is_some() { vec![approve, true] } else { vec![true] },
            };
            let follow = StepS {
                op: OpS::Process(EvS::OrderSnapshot {
                    order: order(1, 1, 30, StS::Oif),
                    snap: SnapS::Open(meta(130, 9, 0)),
                }),
                g: GS::default(),
                close: no_close(),
            };
            let tag = format!("table_link{}_kind{}", si, kind);
            for approve in [true, false] {
                // P0: a market event while enabled
                let mut s = fixture(true, *stat);
                s.steps = vec![
                    StepS {
                        op: OpS::Process(EvS::MarketTrade { inst: 1, t: 4, price: 505_000 }),
                        g: algo(approve),
                        close: no_close(),
                    },
                    follow.clone(),
                ];
                emit(em, "table", &s, &[&tag, "path_enabled_event"]);
                // P1: re-enabling generates on that very event
                let mut s = fixture(false, *stat);
                s.steps = vec![StepS { op: OpS::Process(EvS::Trading(true)), g: algo(approve), close: no_close() }];
                emit(em, "table", &s, &[&tag, "path_enable_event"]);
                // P2: generate_algo_orders() called directly
                let mut s = fixture(false, *stat);
                s.steps = vec![StepS { op: OpS::Generate, g: algo(approve), close: no_close() }];
                emit(em, "table", &s, &[&tag, "path_direct_generate"]);
            }
            // command paths (no risk check). The algo script holds one extra open for link 1.
            let cmd = if uc.is_some() { CmdS::SendCancels(cancels.clone()) } else { CmdS::SendOpens(opens.clone()) };
            let extra = GS { cancels: vec![], opens: vec![open(1, 1, 40)], cmask: vec![], omask: vec![true] };
            for trading in [false, true] {
                let mut s = fixture(trading, *stat);
                s.steps = vec![
                    StepS { op: OpS::Process(EvS::Command(cmd.clone())), g: extra.clone(), close: no_close() },
                    follow.clone(),
                ];
                emit(em, "table", &s, &[&tag, if trading { "path_command_enabled" } else { "path_command_disabled" }]);
            }
            let mut s = fixture(false, *stat);
            s.steps = vec![StepS { op: OpS::Action(cmd.clone()), g: extra.clone(), close: no_close() }];
            emit(em, "table", &s, &[&tag, "path_direct_action"]);
            // ClosePositions with a scripted ClosePositionsStrategy returning both lists
            let mut s = fixture(true, *stat);
            s.steps = vec![StepS {
                op: OpS::Process(EvS::Command(CmdS::ClosePositions(FilterS::None))),
                g: extra.clone(),
                close: CloseS::Scripted { cancels: cancels.clone(), opens: opens.clone() },
            }];
            emit(em, "table", &s, &[&tag, "path_close_scripted"]);
            // P7: disabled => the script must stay unused, state still updated
            let mut s = fixture(false, *stat);
            s.steps = vec![
                StepS {
                    op: OpS::Process(EvS::MarketTrade { inst: 0, t: 11, price: 1_010_000 }),
                    g: algo(true),
                    close: no_close(),
                },
                StepS {
                    op: OpS::Process(EvS::CancelResponse { key: key(0, 0, 4), ok: false }),
                    g: algo(true),
                    close: no_close(),
                },
            ];
            emit(em, "table", &s, &[&tag, "path_disabled_event"]);
        }
    }
}

// ---- random / adversarial histories ----------------------------------------------------------------

struct Shadow {
    /// client order ids probably tracked, per instrument
    cids: Vec<Vec<u32>>,
    fresh: u32,
}

struct Layout {
    inst_ex: Vec<usize>,
    n_ex: usize,
}

fn pick_cid(r: &mut Rng, sh: &Shadow, inst: usize) -> u32 {
    if !sh.cids[inst].is_empty() && r.chance(7, 10) { *r.pick(&sh.cids[inst]) } else { 1 + r.below(12) as u32 }
}
fn pick_ex(r: &mut Rng, ly: &Layout, inst: usize, adversarial: bool) -> usize {
    if r.chance(if adversarial { 3 } else { 1 }, 10) { r.below(ly.n_ex as u64 + 2) as usize } else { ly.inst_ex[inst] }
}
fn gen_cancel(r: &mut Rng, sh: &Shadow, ly: &Layout, adversarial: bool) -> CancelS {
    let inst = r.below(ly.inst_ex.len() as u64) as usize;
    let cid = pick_cid(r, sh, inst);
    let id = if r.chance(1, 2) { Some(100 + cid) } else { None };
    cancel(pick_ex(r, ly, inst, adversarial), inst, cid, id)
}
fn gen_open(r: &mut Rng, sh: &mut Shadow, ly: &Layout, adversarial: bool) -> OpenS {
    let inst = r.below(ly.inst_ex.len() as u64) as usize;
    let cid = if r.chance(if adversarial { 5 } else { 2 }, 10) {
        pick_cid(r, sh, inst)
    } else {
        sh.fresh += 1;
        sh.fresh
    };
    if !sh.cids[inst].contains(&cid) {
        sh.cids[inst].push(cid);
    }
    let mut o = open(pick_ex(r, ly, inst, adversarial), inst, cid);
    o.qty = 2500 * (1 + r.below(8) as i64);
    o.kind = r.below(2) as u8;
    o.tif = r.below(5) as u8;
    o
}
fn gen_mask(r: &mut Rng, n: usize, adversarial: bool) -> Vec<bool> {
    let len = if adversarial && r.chance(1, 4) { r.below(n as u64 + 1) as usize } else { n };
    (0..len).map(|_| r.chance(3, 4)).collect()
}
fn gen_batch(r: &mut Rng, sh: &mut Shadow, ly: &Layout, adversarial: bool) -> (Vec<CancelS>, Vec<OpenS>) {
    let nc = *r.pick(&[0usize, 0, 1, 1, 2, 3, 4]);
    let no = *r.pick(&[0usize, 0, 1, 1, 2, 3, 4]);
    let mut cs: Vec<CancelS> = (0..nc).map(|_| gen_cancel(r, sh, ly, adversarial)).collect();
    let mut os: Vec<OpenS> = (0..no).map(|_| gen_open(r, sh, ly, adversarial)).collect();
    if adversarial {
        // duplicates inside one batch; a cancel and an open for the same client order id
        if !cs.is_empty() && r.chance(1, 3) {
            let d = r.pick(&cs).clone();
            cs.push(d);
        }
        if !os.is_empty() && r.chance(1, 3) {
            let d = r.pick(&os).clone();
            os.push(d);
        }
        if !os.is_empty() && r.chance(1, 3) {
            let o = r.pick(&os).clone();
            cs.push(CancelS { key: o.key.clone(), id: None });
        }
    }
    (cs, os)
}
fn gen_gs(r: &mut Rng, sh: &mut Shadow, ly: &Layout, adversarial: bool) -> GS {
    if r.chance(1, 5) {
        return GS::default();
    }
    let (cancels, opens) = gen_batch(r, sh, ly, adversarial);
    let cmask = gen_mask(r, cancels.len(), adversarial);
    let omask = gen_mask(r, opens.len(), adversarial);
    GS { cancels, opens, cmask, omask }
}
fn gen_filter(r: &mut Rng, ly: &Layout) -> FilterS {
    match r.below(3) {
        0 => FilterS::None,
        1 => FilterS::Exchanges((0..ly.n_ex + 1).filter(|_| r.chance(1, 2)).collect()),
        _ => FilterS::Instruments((0..ly.inst_ex.len()).filter(|_| r.chance(1, 2)).collect()),
    }
}
fn gen_command(r: &mut Rng, sh: &mut Shadow, ly: &Layout, adversarial: bool) -> (CmdS, CloseS) {
    match r.below(4) {
        0 => {
            let (c, _) = gen_batch(r, sh, ly, adversarial);
            (CmdS::SendCancels(c), no_close())
        }
        1 => {
            let (_, o) = gen_batch(r, sh, ly, adversarial);
            (CmdS::SendOpens(o), no_close())
        }
        2 => {
            let close = if r.chance(1, 2) {
                CloseS::Default { strat: 9, cid_base: 1000 }
            } else {
                let (c, o) = gen_batch(r, sh, ly, adversarial);
                CloseS::Scripted { cancels: c, opens: o }
            };
            (CmdS::ClosePositions(gen_filter(r, ly)), close)
        }
        _ => (CmdS::CancelOrders(gen_filter(r, ly)), no_close()),
    }
}

fn gen_event(r: &mut Rng, sh: &mut Shadow, ly: &Layout, adversarial: bool) -> (EvS, CloseS) {
    let n = ly.inst_ex.len();
    let inst = r.below(n as u64) as usize;
    match r.below(20) {
        0 if adversarial => (EvS::Shutdown, no_close()),
        0 | 1 | 2 | 3 | 4 => {
            let (c, cl) = gen_command(r, sh, ly, adversarial);
            (EvS::Command(c), cl)
        }
        5 | 6 => (EvS::Trading(r.chance(1, 2)), no_close()),
        7 | 8 | 9 | 10 => {
            let cid = pick_cid(r, sh, inst);
            let mut o = order(ly.inst_ex[inst], inst, cid, StS::Oif);
            o.qty = 20_000;
            let snap = match r.below(8) {
                0 => SnapS::Cancelled,
                1 => SnapS::FullyFilled,
                2 => SnapS::Expired,
                3 => SnapS::OpenFailed,
                _ => SnapS::Open(meta(100 + cid, r.range(0, 20), *r.pick(&[0, 0, 5_000, 20_000]))),
            };
            if matches!(snap, SnapS::Open(_)) && !sh.cids[inst].contains(&cid) {
                sh.cids[inst].push(cid);
            }
            (EvS::OrderSnapshot { order: o, snap }, no_close())
        }
        11 | 12 => {
            let cid = pick_cid(r, sh, inst);
            (EvS::CancelResponse { key: key(ly.inst_ex[inst], inst, cid), ok: r.chance(1, 2) }, no_close())
        }
        13 | 14 => (
            EvS::Trade {
                inst,
                buy: r.chance(1, 2),
                qty: 5_000 * (1 + r.below(4) as i64),
                price: 1_000_000 + 2500 * r.below(20) as i64,
                fee: r.below(3) as i64 * 100,
            },
            no_close(),
        ),
        15 => (EvS::AccountReconnecting, no_close()),
        16 => (EvS::MarketReconnecting, no_close()),
        _ => (EvS::MarketTrade { inst, t: r.range(0, 30), price: 2500 * (380 + r.below(40) as i64) }, no_close()),
    }
}

fn gen_link(r: &mut Rng, adversarial: bool) -> LinkS {
    let k = r.below(20);
    let dead = if adversarial { 10 } else { 6 };
    if k >= dead {
        LinkS::Open
    } else {
        *r.pick(&[LinkS::Closed, LinkS::Closed, LinkS::Unhealthy, LinkS::Missing, LinkS::Missing])
    }
}

fn gen_history(r: &mut Rng, max_steps: u64, adversarial: bool) -> Spec {
    let n_ex = 1 + r.below(3) as usize;
    let n_inst = n_ex + r.below((5 - n_ex) as u64) as usize;
    let mut exs: Vec<usize> = (0..n_inst).map(|j| j % n_ex).collect();
    exs.sort();
    let assets = ["a", "b", "c"];
    let mut sh = Shadow { cids: vec![vec![]; n_inst], fresh: 20 };
    let mut instruments = vec![];
    for (j, ex) in exs.iter().enumerate() {
        let bi = r.below(3) as usize;
        let qi = (bi + 1 + r.below(2) as usize) % 3;
        let mut orders = vec![];
        for _ in 0..r.below(4) {
            let cid = 1 + r.below(8) as u32;
            if sh.cids[j].contains(&cid) {
                continue;
            }
            sh.cids[j].push(cid);
            let st = match r.below(4) {
                0 => StS::Oif,
                1 => StS::Open(meta(100 + cid, r.range(0, 10), *r.pick(&[0, 5_000]))),
                2 => StS::Cif(None),
                _ => StS::Cif(Some(meta(100 + cid, r.range(0, 10), 0))),
            };
            orders.push(order(*ex, j, cid, st));
        }
        instruments.push(InstS {
            ex: *ex,
            base: assets[bi].into(),
            quote: assets[qi].into(),
            orders,
            pos: match r.below(3) {
                0 => None,
                k => {
                    let q = 5_000 * (1 + r.below(4) as i64);
                    Some(PosS { buy: k == 1, qty: q, qty_max: q + 5_000 })
                }
            },
            last: if r.chance(2, 3) { Some((r.range(0, 10), 2500 * (390 + r.below(20) as i64))) } else { None },
        });
    }
    let n_links = (n_ex as i64 + *r.pick(&[-1i64, 0, 0, 0, 1])).max(0) as usize;
    let links: Vec<LinkS> = (0..n_links).map(|_| gen_link(r, adversarial)).collect();
    let ly = Layout { inst_ex: exs.clone(), n_ex };
    let n_steps = 3 + r.below(max_steps - 2);
    let mut steps = vec![];
    for _ in 0..n_steps {
        let g = gen_gs(r, &mut sh, &ly, adversarial);
        let (op, close) = match r.below(20) {
            0 => (OpS::Generate, no_close()),
            1 => {
                let (c, cl) = gen_command(r, &mut sh, &ly, adversarial);
                (OpS::Action(c), cl)
            }
            2 if n_links > 0 => {
                let st = *r.pick(&[LinkS::Open, LinkS::Open, LinkS::Closed, LinkS::Unhealthy, LinkS::Missing]);
                (OpS::SetLink(r.below(n_links as u64) as usize, st), no_close())
            }
            _ => {
                let (e, cl) = gen_event(r, &mut sh, &ly, adversarial);
                (OpS::Process(e), cl)
            }
        };
        steps.push(StepS { op, g, close });
    }
    Spec { trading: r.chance(2, 3), links, instruments, steps }
}

fn main() {
    quiet_panics();
    let args = parse_args();
    let mut em = Emitter::create(&args.out);
    match args.mode.as_str() {
        "gen" => {
            let mut r = Rng::new(args.seed);
            let (n_rand, n_adv, max_steps) = if args.tier == "thorough" { (2000, 1000, 30) } else { (170, 90, 16) };
            table(&mut em);
            for _ in 0..n_rand {
                let s = gen_history(&mut r, max_steps, false);
                emit(&mut em, "random", &s, &[]);
            }
            for _ in 0..n_adv {
                let s = gen_history(&mut r, max_steps, true);
                emit(&mut em, "adversarial", &s, &[]);
            }
        }
        "exec" => {
            for (inp, stream) in read_inputs(args.input.as_deref().expect("--in")) {
                let spec: Result<Spec, _> = serde_json::from_value::<Spec>(inp.clone());
                match spec {
                    Ok(s) if !s.instruments.is_empty() => emit(&mut em, stream_static(&stream), &s, &[]),
                    _ => {
                        // not a runnable input (e.g. produced by shrinking): report a trivially true case
                        em.emit(Case {
                            stream: stream_static(&stream),
                            input: if inp.is_null() { Value::Null } else { inp },
                            coq: "(mkCase (mkState false [] []) [])".into(),
                            nontrivial: false,
                            tags: vec!["unrunnable_input".into()],
                        });
                    }
                }
            }
        }
        m => panic!("unknown mode {m}"),
    }
    em.finish();
}
