//! C07 correspondence harness: runs the real `ExecutionManager::run` around a scripted
//! `ExecutionClient` on a current-thread tokio runtime with a paused clock.  Requests are sent on
//! the manager's request channel at scripted virtual times; every event arriving on the response
//! channel is stamped with the virtual time of its arrival.  Inputs + observations are printed
//! as Coq terms (Corr/C07.v).
use barter::execution::{
    AccountStreamEvent,
    manager::ExecutionManager,
    request::ExecutionRequest,
};
use barter_data::streams::reconnect::stream::ReconnectionBackoffPolicy;
use barter_execution::{
    AccountEvent, AccountEventKind, UnindexedAccountEvent, UnindexedAccountSnapshot,
    balance::AssetBalance,
    client::ExecutionClient,
    error::{ApiError, ConnectivityError, OrderError, UnindexedClientError, UnindexedOrderError},
    indexer::AccountEventIndexer,
    map::generate_execution_instrument_map,
    order::{
        Order, OrderKey, OrderKind, TimeInForce,
        id::{ClientOrderId, OrderId, StrategyId},
        request::{
            OrderRequestCancel, OrderRequestOpen, RequestCancel, RequestOpen,
            UnindexedOrderResponseCancel,
        },
        state::{ActiveOrderState, Cancelled, InactiveOrderState, Open, OrderState},
    },
    trade::Trade,
};
use barter_instrument::{
    Side, Underlying,
    asset::{Asset, QuoteAsset, name::AssetNameExchange},
    exchange::{ExchangeId, ExchangeIndex},
    index::IndexedInstruments,
    instrument::{
        Instrument, InstrumentIndex,
        kind::{
            InstrumentKind,
            future::FutureContract,
            option::{OptionContract, OptionExercise, OptionKind},
            perpetual::PerpetualContract,
        },
        name::InstrumentNameExchange,
        quote::InstrumentQuoteAsset,
    },
};
use barter_integration::{
    channel::{Tx, mpsc_unbounded},
    snapshot::Snapshot,
};
use chrono::{DateTime, Utc};
use futures::{Stream, StreamExt};
use rust_decimal::Decimal;
use serde_json::{Value, json};
use std::{
    collections::{HashMap, VecDeque},
    sync::{Arc, Mutex},
    time::Duration,
};
use vh_common::*;

const POOL: [ExchangeId; 4] = [
    ExchangeId::Kraken,
    ExchangeId::BinanceSpot,
    ExchangeId::Okx,
    ExchangeId::Coinbase,
];

// ---- script ---------------------------------------------------------------------------------

#[derive(Clone, Debug, PartialEq)]
enum Beh {
    /// respond after `d` ms: ok (for an open: fully filled or not) or the error with code `e`
    Respond { d: u64, ok: bool, full: bool, e: u64 },
    /// respond after `d` ms with a key the indexer cannot resolve (v=0 instrument name in the
    /// key, v=1 unknown asset name inside the error)
    BadKey { d: u64, v: u64 },
    Never,
    /// the client future panics after `d` ms
    Panic { d: u64 },
}

#[derive(Clone, Debug)]
struct Req {
    open: bool,
    x: usize,   // ExchangeIndex carried by the request key
    i: usize,   // InstrumentIndex carried by the request key
    cid: u64,
    at: u64,    // virtual ms at which it is sent
    b: Beh,
}

#[derive(Clone, Debug)]
struct Input {
    exchanges: Vec<usize>, // pool indices
    instr: Vec<usize>,     // instruments per exchange (1..=3)
    mgr: usize,            // pool index of the exchange the manager serves
    tau: u64,
    stop: Option<u64>,
    via_init: bool,
    script: Vec<Req>,
    /// closed-loop load run (see `FloodStream`): the cap on requests handed out; `script` unused
    flood: Option<u64>,
    /// sub-millisecond jitter seed (0 = all durations are whole milliseconds)
    jitter: u64,
    /// drop the response receiver at this virtual ms while the manager keeps running
    close_rx_at: Option<u64>,
    /// account-stream schedule (forces ExecutionManager::init): for every connection that ends,
    /// (virtual ms at which the client's account stream ends, number of failed re-initialisations
    /// before the next succeeds, how they fail: 0 = account_stream errs, 1 = account_snapshot errs)
    acct: Option<Vec<(u64, u64, u64)>>,
    /// ReconnectionBackoffPolicy (initial ms, multiplier, max ms) used with `acct`
    backoff: (u64, u64, u64),
    /// extreme but legal request_timeout configurations; `tau` then holds the milliseconds the
    /// model works with: "max" = Duration::MAX, "u64secs" = Duration::from_secs(u64::MAX) (both
    /// unrepresentable as a deadline: no run ever reaches them, tau = 4e15 ms stands in),
    /// "1ns" = one nanosecond (tau = 1: tokio rounds deadlines up to the ms), "1e9s" = 10^9 s
    /// (tau = 10^12)
    tau_kind: Option<String>,
}

fn beh_json(b: &Beh) -> Value {
    match b {
        Beh::Respond { d, ok, full, e } => json!({"t": "r", "d": d, "ok": ok, "full": full, "e": e}),
        Beh::BadKey { d, v } => json!({"t": "bad", "d": d, "v": v}),
        Beh::Never => json!({"t": "never"}),
        Beh::Panic { d } => json!({"t": "panic", "d": d}),
    }
}
fn beh_from(v: &Value) -> Beh {
    let u = |k: &str| v.get(k).and_then(|x| x.as_u64()).unwrap_or(0);
    match v.get("t").and_then(|t| t.as_str()).unwrap_or("never") {
        "r" => Beh::Respond {
            d: u("d"),
            ok: v.get("ok").and_then(|x| x.as_bool()).unwrap_or(true),
            full: v.get("full").and_then(|x| x.as_bool()).unwrap_or(false),
            e: u("e") % 7,
        },
        "bad" => Beh::BadKey { d: u("d"), v: u("v") % 2 },
        "panic" => Beh::Panic { d: u("d") },
        _ => Beh::Never,
    }
}

impl Input {
    fn to_json(&self) -> Value {
        json!({
            "exchanges": self.exchanges, "instr": self.instr, "mgr": self.mgr, "tau": self.tau,
            "stop": self.stop, "via_init": self.via_init, "flood": self.flood, "jitter": self.jitter, "close_rx_at": self.close_rx_at,
            "acct": self.acct.as_ref().map(|v| v.iter().map(|(t, k, h)| json!({"end": t, "fails": k, "how": h})).collect::<Vec<_>>()),
            "backoff": [self.backoff.0, self.backoff.1, self.backoff.2],
            "tau_kind": self.tau_kind,
            "script": self.script.iter().map(|r| json!({
                "k": if r.open { "o" } else { "c" }, "x": r.x, "i": r.i, "cid": r.cid, "at": r.at,
                "b": beh_json(&r.b)})).collect::<Vec<_>>(),
        })
    }
    fn from_json(v: &Value) -> Input {
        let us = |x: &Value| x.as_u64().unwrap_or(0) as usize;
        let exchanges: Vec<usize> = v["exchanges"].as_array().map(|a| a.iter().map(us).collect()).unwrap_or_default();
        let mut instr: Vec<usize> = v["instr"].as_array().map(|a| a.iter().map(us).collect()).unwrap_or_default();
        instr.resize(exchanges.len(), 1);
        let mut script: Vec<Req> = v["script"]
            .as_array()
            .map(|a| {
                a.iter()
                    .map(|r| Req {
                        open: r["k"].as_str().unwrap_or("o") == "o",
                        x: us(&r["x"]),
                        i: us(&r["i"]),
                        cid: r["cid"].as_u64().unwrap_or(0),
                        at: r["at"].as_u64().unwrap_or(0),
                        b: beh_from(&r["b"]),
                    })
                    .collect()
            })
            .unwrap_or_default();
        script.sort_by_key(|r| r.at); // stable: requests are sent in time order
        Input {
            exchanges,
            instr,
            mgr: us(&v["mgr"]),
            tau: v["tau"].as_u64().unwrap_or(1000),
            stop: v["stop"].as_u64(),
            via_init: v["via_init"].as_bool().unwrap_or(false),
            script,
            flood: v["flood"].as_u64(),
            jitter: v["jitter"].as_u64().unwrap_or(0),
            close_rx_at: v["close_rx_at"].as_u64(),
            acct: v["acct"].as_array().map(|a| {
                let mut sched: Vec<(u64, u64, u64)> = a
                    .iter()
                    .map(|e| (e["end"].as_u64().unwrap_or(0), e["fails"].as_u64().unwrap_or(0).min(6), e["how"].as_u64().unwrap_or(0) % 2))
                    .collect();
                sched.sort_by_key(|e| e.0);
                sched
            }),
            backoff: (
                v["backoff"][0].as_u64().unwrap_or(5).max(1),
                v["backoff"][1].as_u64().unwrap_or(2).clamp(1, 255),
                v["backoff"][2].as_u64().unwrap_or(40).max(1),
            ),
            tau_kind: v["tau_kind"].as_str().map(|k| k.to_string()),
        }
        .normalised()
    }
}

const TAU_UNREACHABLE_MS: u64 = 4_000_000_000_000_000;

impl Input {
    /// make `tau` (the model's milliseconds) agree with `tau_kind`; with an unrepresentable
    /// timeout a request nobody answers would simply stay outstanding until shutdown, so every
    /// client answers there
    fn normalised(mut self) -> Input {
        match self.tau_kind.as_deref() {
            Some("max") | Some("u64secs") => {
                self.tau = TAU_UNREACHABLE_MS;
                for r in self.script.iter_mut() {
                    if matches!(r.b, Beh::Never) {
                        r.b = Beh::Respond { d: 7, ok: true, full: false, e: 0 };
                    }
                }
                self.jitter = 0;
            }
            Some("1ns") => {
                self.tau = 1;
                self.jitter = 0;
            }
            Some("1e9s") => {
                self.tau = 1_000_000_000_000;
                self.jitter = 0;
            }
            _ => self.tau_kind = None,
        }
        self
    }
    fn real_timeout(&self) -> Duration {
        match self.tau_kind.as_deref() {
            Some("max") => Duration::MAX,
            Some("u64secs") => Duration::from_secs(u64::MAX),
            Some("1ns") => Duration::from_nanos(1),
            Some("1e9s") => Duration::from_secs(1_000_000_000),
            _ => real(self.tau, self.jitter, 3),
        }
    }
}

// ---- request / response fields derived from the client order id ---------------------------------

fn cid_str(c: u64) -> String {
    format!("c{c}")
}
fn cid_num(c: &ClientOrderId) -> Option<u64> {
    c.0.as_str().strip_prefix('c').and_then(|s| s.parse().ok())
}
fn strategy_of(c: u64) -> StrategyId {
    StrategyId::new(format!("s{}", c % 2))
}
fn open_state_of(c: u64) -> RequestOpen {
    RequestOpen {
        side: if c % 2 == 0 { Side::Buy } else { Side::Sell },
        price: Decimal::new(100 + c as i64, 0),
        quantity: Decimal::new(2 + (c % 5) as i64 * 2, 0),
        kind: if c % 3 == 0 { OrderKind::Market } else { OrderKind::Limit },
        time_in_force: match c % 4 {
            0 => TimeInForce::GoodUntilCancelled { post_only: false },
            1 => TimeInForce::ImmediateOrCancel,
            2 => TimeInForce::FillOrKill,
            _ => TimeInForce::GoodUntilCancelled { post_only: true },
        },
    }
}
fn order_id_of(c: u64) -> OrderId {
    OrderId::new(format!("oid-{c}"))
}
fn t_exchange() -> DateTime<Utc> {
    DateTime::<Utc>::from_timestamp(1_700_000_000, 0).unwrap()
}

fn unindexed_error(e: u64, exchange: ExchangeId) -> UnindexedOrderError {
    match e % 7 {
        0 => OrderError::Rejected(ApiError::RateLimit),
        1 => OrderError::Rejected(ApiError::OrderRejected("scripted".to_string())),
        2 => OrderError::Rejected(ApiError::OrderAlreadyCancelled),
        3 => OrderError::Rejected(ApiError::OrderAlreadyFullyFilled),
        4 => OrderError::Connectivity(ConnectivityError::ExchangeOffline(exchange)),
        5 => OrderError::Connectivity(ConnectivityError::Socket("scripted".to_string())),
        _ => OrderError::Connectivity(ConnectivityError::Timeout),
    }
}
const ERR_NAMES: [&str; 7] = [
    "ERateLimit", "ERejected", "EAlreadyCancelled", "EAlreadyFilled", "EOffline", "ESocket", "ETimeout",
];
fn err_name<A, I>(e: &OrderError<A, I>) -> Option<&'static str> {
    Some(match e {
        OrderError::Rejected(ApiError::RateLimit) => "ERateLimit",
        OrderError::Rejected(ApiError::OrderRejected(_)) => "ERejected",
        OrderError::Rejected(ApiError::OrderAlreadyCancelled) => "EAlreadyCancelled",
        OrderError::Rejected(ApiError::OrderAlreadyFullyFilled) => "EAlreadyFilled",
        OrderError::Connectivity(ConnectivityError::ExchangeOffline(_)) => "EOffline",
        OrderError::Connectivity(ConnectivityError::Socket(_)) => "ESocket",
        OrderError::Connectivity(ConnectivityError::Timeout) => "ETimeout",
        _ => return None,
    })
}

/// The real duration used for a scripted `ms` milliseconds.  With `jitter == 0` exactly `ms` ms.
/// Otherwise `ms` ms MINUS 1..=999 microseconds (a deterministic function of `jitter` and `salt`):
/// tokio's timer rounds every deadline UP to the next millisecond, so the behaviour (and the
/// model's millisecond values) must be the same — unless the code under test truncates or
/// compares durations at a coarser resolution.
fn real(ms: u64, jitter: u64, salt: u64) -> Duration {
    if jitter == 0 || ms == 0 {
        return Duration::from_millis(ms);
    }
    let mut z = jitter.wrapping_mul(0x9E37_79B9_7F4A_7C15) ^ salt.wrapping_mul(0xBF58_476D_1CE4_E5B9);
    z ^= z >> 29;
    z = z.wrapping_mul(0x94D0_49BB_1331_11EB);
    z ^= z >> 32;
    let j = match z % 5 {
        0 => 1,
        1 => 999,
        _ => 1 + (z >> 8) % 999,
    };
    Duration::from_micros(ms * 1000 - j)
}

// ---- scripted client ------------------------------------------------------------------------------

type Script = Arc<Mutex<HashMap<(bool, u64), VecDeque<Beh>>>>;

#[derive(Clone)]
struct Scripted {
    script: Script,
    exchange: ExchangeId,
    /// behaviour for a request the script has no entry for
    default_beh: Beh,
    /// sub-millisecond jitter seed (0 = none), see `real`
    jitter: u64,
    /// account-stream lifecycle script
    acct: Arc<Mutex<AcctState>>,
}

/// State of the scripted account stream: which connection is next, how many re-initialisations
/// of the pending reconnect have failed so far.
struct AcctState {
    sched: Vec<(u64, u64, u64)>,
    start: Option<tokio::time::Instant>,
    /// successful connections so far
    conns: usize,
    fails_done: u64,
    /// the current attempt is to fail in account_snapshot (after account_stream succeeded)
    snapshot_fails_now: bool,
}

impl Scripted {
    fn next_behaviour(&self, open: bool, cid: &ClientOrderId) -> Beh {
        cid_num(cid)
            .and_then(|c| self.script.lock().unwrap().get_mut(&(open, c)).and_then(|q| q.pop_front()))
            .unwrap_or_else(|| self.default_beh.clone())
    }
}

impl ExecutionClient for Scripted {
    const EXCHANGE: ExchangeId = ExchangeId::Mock;
    type Config = (Script, ExchangeId, Beh, u64, Vec<(u64, u64, u64)>);
    type AccountStream = futures::stream::BoxStream<'static, UnindexedAccountEvent>;

    fn new(config: Self::Config) -> Self {
        Scripted {
            script: config.0,
            exchange: config.1,
            default_beh: config.2,
            jitter: config.3,
            acct: Arc::new(Mutex::new(AcctState { sched: config.4, start: None, conns: 0, fails_done: 0, snapshot_fails_now: false })),
        }
    }

    async fn account_snapshot(
        &self,
        _: &[AssetNameExchange],
        _: &[InstrumentNameExchange],
    ) -> Result<UnindexedAccountSnapshot, UnindexedClientError> {
        {
            let mut st = self.acct.lock().unwrap();
            if st.snapshot_fails_now {
                st.snapshot_fails_now = false;
                return Err(UnindexedClientError::AccountSnapshot("scripted".to_string()));
            }
        }
        Ok(UnindexedAccountSnapshot {
            exchange: self.exchange,
            balances: vec![],
            instruments: vec![],
        })
    }

    async fn account_stream(
        &self,
        _: &[AssetNameExchange],
        _: &[InstrumentNameExchange],
    ) -> Result<Self::AccountStream, UnindexedClientError> {
        let mut st = self.acct.lock().unwrap();
        if st.conns > 0 {
            // a re-initialisation after connection number `conns` ended
            let (_, fails, how) = st.sched.get(st.conns - 1).copied().unwrap_or((0, 0, 0));
            if st.fails_done < fails {
                st.fails_done += 1;
                if how == 0 {
                    return Err(UnindexedClientError::Connectivity(ConnectivityError::ExchangeOffline(self.exchange)));
                }
                st.snapshot_fails_now = true;
                return Ok(futures::stream::pending().boxed());
            }
        }
        st.fails_done = 0;
        st.conns += 1;
        let start = *st.start.get_or_insert_with(tokio::time::Instant::now);
        Ok(match st.sched.get(st.conns - 1) {
            // this connection ends at the scripted time (yields nothing, then None)
            Some((end, _, _)) => {
                let deadline = start + Duration::from_millis(*end);
                futures::stream::once(async move { tokio::time::sleep_until(deadline).await })
                    .filter_map(|_| std::future::ready(None))
                    .boxed()
            }
            None => futures::stream::pending().boxed(),
        })
    }

    fn cancel_order(
        &self,
        request: OrderRequestCancel<ExchangeId, &InstrumentNameExchange>,
    ) -> impl Future<Output = UnindexedOrderResponseCancel> + Send {
        let beh = self.next_behaviour(false, &request.key.cid);
        let jitter = self.jitter;
        let key = OrderKey {
            exchange: request.key.exchange,
            instrument: request.key.instrument.clone(),
            strategy: request.key.strategy.clone(),
            cid: request.key.cid.clone(),
        };
        async move {
            let c = cid_num(&key.cid).unwrap_or(0);
            match beh {
                Beh::Respond { d, ok, e, .. } => {
                    tokio::time::sleep(real(d, jitter, c * 13 + 2)).await;
                    UnindexedOrderResponseCancel {
                        state: if ok {
                            Ok(Cancelled { id: order_id_of(c), time_exchange: t_exchange() })
                        } else {
                            Err(unindexed_error(e, key.exchange))
                        },
                        key,
                    }
                }
                Beh::BadKey { d, v } => {
                    tokio::time::sleep(real(d, jitter, c * 13 + 2)).await;
                    if v == 0 {
                        UnindexedOrderResponseCancel {
                            key: OrderKey { instrument: InstrumentNameExchange::new("NOT_CONFIGURED"), ..key },
                            state: Ok(Cancelled { id: order_id_of(c), time_exchange: t_exchange() }),
                        }
                    } else {
                        UnindexedOrderResponseCancel {
                            key,
                            state: Err(OrderError::Rejected(ApiError::BalanceInsufficient(
                                AssetNameExchange::new("not_configured"),
                                "scripted".to_string(),
                            ))),
                        }
                    }
                }
                Beh::Never => std::future::pending().await,
                Beh::Panic { d } => {
                    tokio::time::sleep(real(d, jitter, c * 13 + 2)).await;
                    panic!("scripted client panic")
                }
            }
        }
    }

    fn open_order(
        &self,
        request: OrderRequestOpen<ExchangeId, &InstrumentNameExchange>,
    ) -> impl Future<Output = Order<ExchangeId, InstrumentNameExchange, Result<Open, UnindexedOrderError>>> + Send
    {
        let beh = self.next_behaviour(true, &request.key.cid);
        let jitter = self.jitter;
        let key = OrderKey {
            exchange: request.key.exchange,
            instrument: request.key.instrument.clone(),
            strategy: request.key.strategy.clone(),
            cid: request.key.cid.clone(),
        };
        let st = request.state.clone();
        async move {
            let c = cid_num(&key.cid).unwrap_or(0);
            let mk = |key: OrderKey<ExchangeId, InstrumentNameExchange>,
                      state: Result<Open, UnindexedOrderError>| Order {
                key,
                side: st.side,
                price: st.price,
                quantity: st.quantity,
                kind: st.kind,
                time_in_force: st.time_in_force,
                state,
            };
            match beh {
                Beh::Respond { d, ok, full, e } => {
                    tokio::time::sleep(real(d, jitter, c * 13 + 2)).await;
                    let state = if ok {
                        Ok(Open {
                            id: order_id_of(c),
                            time_exchange: t_exchange(),
                            filled_quantity: if full {
                                st.quantity
                            } else if c % 2 == 0 {
                                Decimal::ZERO
                            } else {
                                st.quantity / Decimal::new(2, 0)
                            },
                        })
                    } else {
                        Err(unindexed_error(e, key.exchange))
                    };
                    mk(key, state)
                }
                Beh::BadKey { d, v } => {
                    tokio::time::sleep(real(d, jitter, c * 13 + 2)).await;
                    if v == 0 {
                        mk(
                            OrderKey { instrument: InstrumentNameExchange::new("NOT_CONFIGURED"), ..key },
                            Ok(Open { id: order_id_of(c), time_exchange: t_exchange(), filled_quantity: Decimal::ZERO }),
                        )
                    } else {
                        mk(
                            key,
                            Err(OrderError::Rejected(ApiError::BalanceInsufficient(
                                AssetNameExchange::new("not_configured"),
                                "scripted".to_string(),
                            ))),
                        )
                    }
                }
                Beh::Never => std::future::pending().await,
                Beh::Panic { d } => {
                    tokio::time::sleep(real(d, jitter, c * 13 + 2)).await;
                    panic!("scripted client panic")
                }
            }
        }
    }

    async fn fetch_balances(&self) -> Result<Vec<AssetBalance<AssetNameExchange>>, UnindexedClientError> {
        Ok(vec![])
    }
    async fn fetch_open_orders(
        &self,
    ) -> Result<Vec<Order<ExchangeId, InstrumentNameExchange, Open>>, UnindexedClientError> {
        Ok(vec![])
    }
    async fn fetch_trades(
        &self,
        _: DateTime<Utc>,
    ) -> Result<Vec<Trade<QuoteAsset, InstrumentNameExchange>>, UnindexedClientError> {
        Ok(vec![])
    }
}

// ---- running one case -----------------------------------------------------------------------------

fn build_instruments(inp: &Input) -> IndexedInstruments {
    let pairs = [("btc", "usdt"), ("eth", "usdt"), ("sol", "usdt")];
    let expiry = DateTime::<Utc>::from_timestamp(1_800_000_000, 0).unwrap();
    let mut b = IndexedInstruments::builder();
    for (j, &p) in inp.exchanges.iter().enumerate() {
        let ex = POOL[p % POOL.len()];
        for (k, (base, quote)) in pairs.iter().take(inp.instr[j].clamp(1, 3)).enumerate() {
            // instrument kinds vary with the position: spot, perpetual (contract 0.001, settled
            // in the quote asset), future (contract 100, settled in the base asset), option
            let kind = match (j + k) % 4 {
                0 => InstrumentKind::Spot,
                1 => InstrumentKind::Perpetual(PerpetualContract {
                    contract_size: Decimal::new(1, 3),
                    settlement_asset: Asset::from(*quote),
                }),
                2 => InstrumentKind::Future(FutureContract {
                    contract_size: Decimal::new(100, 0),
                    settlement_asset: Asset::from(*base),
                    expiry,
                }),
                _ => InstrumentKind::Option(OptionContract {
                    contract_size: Decimal::new(1, 2),
                    settlement_asset: Asset::from(*quote),
                    kind: OptionKind::Put,
                    exercise: OptionExercise::European,
                    expiry,
                    strike: Decimal::new(50_000, 0),
                }),
            };
            b = b.add_instrument(Instrument::new(
                ex,
                format!("{}_{}_{}_{}", ex.as_str(), base, quote, (j + k) % 4),
                format!("{}-{}-{}-{}", base, quote, ex.as_str(), (j + k) % 4).to_uppercase(),
                Underlying::new(Asset::from(*base), Asset::from(*quote)),
                InstrumentQuoteAsset::UnderlyingQuote,
                kind,
                None,
            ));
        }
    }
    b.build()
}

#[derive(Debug)]
enum Seen {
    Event(String),
    Other(u64),
    /// account snapshot of a (re-)connection / Reconnecting notice (does it name our exchange?)
    Snap(u64),
    Rec(u64, bool),
}

fn make_request(r: &Req) -> ExecutionRequest {
    let key = OrderKey {
        exchange: ExchangeIndex(r.x),
        instrument: InstrumentIndex(r.i),
        strategy: strategy_of(r.cid),
        cid: ClientOrderId::new(cid_str(r.cid)),
    };
    if r.open {
        ExecutionRequest::Open(OrderRequestOpen { key, state: open_state_of(r.cid) })
    } else {
        ExecutionRequest::Cancel(OrderRequestCancel {
            key,
            state: RequestCancel { id: if r.cid % 2 == 0 { Some(order_id_of(r.cid)) } else { None } },
        })
    }
}

/// reduce an AccountStreamEvent to the Coq observation `(OEv (mkEv ex instr cid outcome t) key_ex echo)`
fn observe(ev: &AccountStreamEvent, t: u64, own: ExchangeId) -> Option<Seen> {
    let (exchange, kind) = match ev {
        AccountStreamEvent::Item(AccountEvent { exchange, kind }) => (exchange, kind),
        AccountStreamEvent::Reconnecting(origin) => return Some(Seen::Rec(t, *origin == own)),
    };
    match kind {
        AccountEventKind::Snapshot(_) => Some(Seen::Snap(t)), // ExecutionManager::init's account snapshot
        AccountEventKind::OrderSnapshot(Snapshot(order)) => {
            let Some(c) = cid_num(&order.key.cid) else { return Some(Seen::Other(t)) };
            let out = match &order.state {
                OrderState::Active(ActiveOrderState::Open(open)) => {
                    if open.id == order_id_of(c) { "OutActive".to_string() } else { return Some(Seen::Other(t)) }
                }
                OrderState::Inactive(InactiveOrderState::FullyFilled) => "OutFullyFilled".to_string(),
                OrderState::Inactive(InactiveOrderState::OpenFailed(e)) => match err_name(e) {
                    Some(nm) => format!("(OutOpenFailed {nm})"),
                    None => return Some(Seen::Other(t)),
                },
                _ => return Some(Seen::Other(t)),
            };
            let st = open_state_of(c);
            let echo = order.side == st.side
                && order.price == st.price
                && order.quantity == st.quantity
                && order.kind == st.kind
                && order.time_in_force == st.time_in_force
                && order.key.strategy == strategy_of(c);
            Some(Seen::Event(format!(
                "(OEv (mkEv {} {} {} {} {}) {} {})",
                n(exchange.0 as u128),
                n(order.key.instrument.0 as u128),
                n(c as u128),
                out,
                n(t as u128),
                n(order.key.exchange.0 as u128),
                b(echo)
            )))
        }
        AccountEventKind::OrderCancelled(resp) => {
            let Some(c) = cid_num(&resp.key.cid) else { return Some(Seen::Other(t)) };
            let (out, echo_state) = match &resp.state {
                Ok(cancelled) => ("OutCancelled".to_string(), cancelled.id == order_id_of(c)),
                Err(e) => match err_name(e) {
                    Some(nm) => (format!("(OutCancelFailed {nm})"), true),
                    None => return Some(Seen::Other(t)),
                },
            };
            let echo = echo_state && resp.key.strategy == strategy_of(c);
            Some(Seen::Event(format!(
                "(OEv (mkEv {} {} {} {} {}) {} {})",
                n(exchange.0 as u128),
                n(resp.key.instrument.0 as u128),
                n(c as u128),
                out,
                n(t as u128),
                n(resp.key.exchange.0 as u128),
                b(echo)
            )))
        }
        _ => Some(Seen::Other(t)),
    }
}

/// virtual time of an observation in ms; virtual time only ever stands on whole milliseconds
/// (tokio's timer granularity) — anything else is reported as an unexpected observation
fn stamp(start: tokio::time::Instant) -> u64 {
    let us = (tokio::time::Instant::now() - start).as_micros() as u64;
    if us % 1000 == 0 { us / 1000 } else { u64::MAX / 2 + us }
}

/// (disconnect time, time the next connection is established) for every scripted disconnect:
/// each failed re-initialisation is followed by a backoff sleep (initial, then x multiplier up
/// to max; reset on success)
fn acct_times(inp: &Input) -> Vec<(u64, u64)> {
    let (init, mult, max) = inp.backoff;
    inp.acct
        .as_ref()
        .map(|sched| {
            sched
                .iter()
                .map(|(end, fails, _)| {
                    let mut cur = init;
                    let mut t = *end;
                    for _ in 0..*fails {
                        t += cur;
                        cur = (cur * mult).min(max);
                    }
                    (*end, t)
                })
                .collect()
        })
        .unwrap_or_default()
}

/// Result of running one case on the implementation.
struct Ran {
    seen: Vec<Seen>,
    end: &'static str,
    /// the merged stream ended although the manager task was still running
    ended_early: bool,
}

async fn drive<St>(
    inp: Input,
    req_tx: barter_integration::channel::UnboundedTx<ExecutionRequest>,
    events: St,
    handle: tokio::task::JoinHandle<()>,
    start: tokio::time::Instant,
) -> Ran
where
    St: Stream<Item = AccountStreamEvent> + Unpin,
{
    // when the harness sends Shutdown: the scripted stop time, or well after everything resolved
    let horizon = inp
        .script
        .iter()
        .map(|r| r.at + match r.b { Beh::Respond { d, .. } | Beh::BadKey { d, .. } | Beh::Panic { d } => d.min(inp.tau), Beh::Never => inp.tau })
        .max()
        .unwrap_or(0)
        + 50;
    // ... and after the last scripted account-stream re-connection
    let horizon = horizon.max(acct_times(&inp).iter().map(|(_, t)| *t).max().unwrap_or(0) + 50);
    let own = POOL[inp.mgr % POOL.len()];
    let mut ended_early = false;
    let shutdown_at = inp.stop.unwrap_or(horizon);
    let script = inp.script.clone();
    let jitter = inp.jitter;
    let close_at = inp.close_rx_at;
    let sender = tokio::spawn(async move {
        let mut shutdown_sent = false;
        for r in &script {
            if !shutdown_sent && r.at > shutdown_at {
                tokio::time::sleep_until(start + Duration::from_millis(shutdown_at)).await;
                let _ = req_tx.send(ExecutionRequest::Shutdown);
                shutdown_sent = true;
            }
            tokio::time::sleep_until(start + real(r.at, jitter, r.cid * 7 + 1)).await;
            let _ = req_tx.send(make_request(r));
        }
        if !shutdown_sent {
            tokio::time::sleep_until(start + Duration::from_millis(shutdown_at)).await;
            let _ = req_tx.send(ExecutionRequest::Shutdown);
        }
        // keep the transmitter alive until the manager is gone
        tokio::time::sleep(Duration::from_secs(3600)).await;
        drop(req_tx);
    });
    let mut seen = vec![];
    // the response channel closes when the manager's run() returns or panics (it owns the only
    // transmitter); with `init` the merged stream also carries the (pending) account stream, so
    // stop when the manager task has finished and nothing more is buffered.  With `close_rx_at`
    // the receiver is dropped at that time while the manager keeps running.
    let mut handle = handle;
    let mut events = Some(events);
    let end;
    loop {
        let closing = close_at.is_some() && events.is_some();
        tokio::select! {
            biased;
            ev = async { match events.as_mut() { Some(e) => e.next().await, None => std::future::pending().await } } => match ev {
                Some(ev) => {
                    let t = stamp(start);
                    if let Some(s) = observe(&ev, t, own) { seen.push(s) }
                }
                None => {
                    // the stream handed out by the manager (response channel / merged account
                    // stream) is over: legitimate only once the manager itself is gone
                    ended_early = !handle.is_finished();
                    end = match (&mut handle).await { Ok(()) => "ObsReturned", Err(_) => "ObsPanicked" };
                    break;
                }
            },
            _ = async { if closing { tokio::time::sleep_until(start + Duration::from_millis(close_at.unwrap_or(0))).await } else { std::future::pending::<()>().await } } => {
                events = None; // drops the receiver: the manager's next send fails
            },
            res = &mut handle => {
                // drain what is already buffered
                if let Some(e) = events.as_mut() {
                    while let Some(Some(ev)) = futures::FutureExt::now_or_never(e.next()) {
                        let t = stamp(start);
                        if let Some(s) = observe(&ev, t, own) { seen.push(s) }
                    }
                }
                end = match res { Ok(()) => "ObsReturned", Err(_) => "ObsPanicked" };
                break;
            }
        }
    }
    sender.abort();
    Ran { seen, end, ended_early }
}

fn run_on_runtime(inp: Input) -> Ran {
    let rt = tokio::runtime::Builder::new_current_thread()
        .enable_time()
        .start_paused(true)
        .build()
        .expect("runtime");
    rt.block_on(async move {
        let instruments = build_instruments(&inp);
        let exchange = POOL[inp.mgr % POOL.len()];
        let map = generate_execution_instrument_map(&instruments, exchange).expect("instrument map");
        let indexer = AccountEventIndexer::new(Arc::new(map));
        let mut table: HashMap<(bool, u64), VecDeque<Beh>> = HashMap::new();
        for r in &inp.script {
            table.entry((r.open, r.cid)).or_default().push_back(r.b.clone());
        }
        let client = Arc::new(Scripted::new((Arc::new(Mutex::new(table)), exchange, Beh::Never, inp.jitter, inp.acct.clone().unwrap_or_default())));
        let tau = inp.real_timeout();
        let (req_tx, req_rx) = mpsc_unbounded::<ExecutionRequest>();
        let start = tokio::time::Instant::now();
        if inp.via_init || inp.acct.is_some() {
            let (manager, stream) = ExecutionManager::init(
                req_rx.into_stream(),
                tau,
                client,
                indexer,
                ReconnectionBackoffPolicy {
                    backoff_ms_initial: if inp.acct.is_some() { inp.backoff.0 } else { 125 },
                    backoff_multiplier: if inp.acct.is_some() { inp.backoff.1 as u8 } else { 2 },
                    backoff_ms_max: if inp.acct.is_some() { inp.backoff.2 } else { 60000 },
                },
            )
            .await
            .expect("ExecutionManager::init");
            let handle = tokio::spawn(manager.run());
            drive(inp, req_tx, Box::pin(stream), handle, start).await
        } else {
            let (resp_tx, resp_rx) = mpsc_unbounded::<AccountStreamEvent>();
            let manager = ExecutionManager::new(req_rx.into_stream(), tau, resp_tx, client, indexer);
            let handle = tokio::spawn(manager.run());
            drive(inp, req_tx, resp_rx.into_stream(), handle, start).await
        }
    })
}

static HANGS: std::sync::atomic::AtomicUsize = std::sync::atomic::AtomicUsize::new(0);

/// Run a case on its own OS thread with a wall-clock watchdog: a manager that spins without ever
/// letting virtual time advance (or dead-locks) is reported as `ObsHang`.
fn run_guarded(inp: &Input) -> Ran {
    let (tx, rx) = std::sync::mpsc::channel();
    let inp2 = inp.clone();
    std::thread::spawn(move || {
        let r = catch(std::panic::AssertUnwindSafe(|| run_on_runtime(inp2)));
        let _ = tx.send(r);
    });
    match rx.recv_timeout(Duration::from_secs(15)) {
        Ok(Ok(r)) => r,
        Ok(Err(_)) => Ran { seen: vec![], end: "ObsPanicked", ended_early: false },
        Err(_) => {
            HANGS.fetch_add(1, std::sync::atomic::Ordering::SeqCst);
            Ran { seen: vec![], end: "ObsHang", ended_early: false }
        }
    }
}

// ---- closed-loop load ("flood") run ---------------------------------------------------------------

/// What the flood request source and the collector share: the response channel's receiver and
/// everything taken off it so far (with the number of requests handed out at that moment).
struct FloodShared {
    rx: tokio::sync::mpsc::UnboundedReceiver<AccountStreamEvent>,
    seen: Vec<AccountStreamEvent>,
    handed: u64,
    polls: u64,
    first: Option<u64>,
}

/// Request source for `ExecutionManager` that is ready with a fresh accepted request (alternating
/// open / cancel, client answers at once) EVERY time it is polled, until the first answer has
/// appeared on the response channel or `cap` requests were handed out; afterwards it forwards
/// what the harness sends (Shutdown).
struct FloodStream {
    shared: Arc<Mutex<FloodShared>>,
    cap: u64,
    x: usize,
    own: Vec<usize>,
    inner: tokio_stream_compat::Rx,
}

mod tokio_stream_compat {
    /// minimal Stream over a tokio unbounded receiver (avoids a tokio-stream dependency)
    pub struct Rx(pub tokio::sync::mpsc::UnboundedReceiver<barter::execution::request::ExecutionRequest>);
    impl futures::Stream for Rx {
        type Item = barter::execution::request::ExecutionRequest;
        fn poll_next(
            mut self: std::pin::Pin<&mut Self>,
            cx: &mut std::task::Context<'_>,
        ) -> std::task::Poll<Option<Self::Item>> {
            self.0.poll_recv(cx)
        }
    }
}

const FLOOD_CID0: u64 = 1000;

impl Stream for FloodStream {
    type Item = ExecutionRequest;
    fn poll_next(
        mut self: std::pin::Pin<&mut Self>,
        cx: &mut std::task::Context<'_>,
    ) -> std::task::Poll<Option<Self::Item>> {
        let next = {
            let mut sh = self.shared.lock().unwrap();
            while let Ok(ev) = sh.rx.try_recv() {
                sh.seen.push(ev);
            }
            // goal: cap/8 answers seen; a fair manager gets there after about that many requests
            if sh.first.is_none() && (sh.seen.len() as u64 >= (self.cap / 8).max(1) || sh.handed >= self.cap) {
                sh.first = Some(sh.handed);
            }
            if sh.first.is_none() {
                // be a good citizen: every 16th poll report Pending (self-woken) so that the task
                // can yield to the scheduler and tokio's cooperative budget is replenished
                sh.polls += 1;
                if sh.polls % 16 == 0 {
                    cx.waker().wake_by_ref();
                    return std::task::Poll::Pending;
                }
                let k = sh.handed;
                sh.handed += 1;
                Some(k)
            } else {
                None
            }
        };
        match next {
            Some(k) => {
                let r = Req {
                    open: k % 2 == 0,
                    x: self.x,
                    i: self.own[(k as usize) % self.own.len()],
                    cid: FLOOD_CID0 + k,
                    at: 0,
                    b: Beh::Never, // unused: the client's default behaviour answers at once
                };
                std::task::Poll::Ready(Some(make_request(&r)))
            }
            None => std::pin::Pin::new(&mut self.inner).poll_next(cx),
        }
    }
}

struct FloodRan {
    first: u64,
    taken: u64,
    events: u64,
    once: u64,
    end: &'static str,
}

fn run_flood_on_runtime(inp: Input, cap: u64) -> FloodRan {
    let rt = tokio::runtime::Builder::new_current_thread()
        .enable_time()
        .start_paused(true)
        .build()
        .expect("runtime");
    rt.block_on(async move {
        let instruments = build_instruments(&inp);
        let exchange = POOL[inp.mgr % POOL.len()];
        let map = generate_execution_instrument_map(&instruments, exchange).expect("instrument map");
        let x = map.exchange.key.0;
        let own: Vec<usize> = instruments
            .instruments()
            .iter()
            .filter(|i| i.value.exchange.value == exchange)
            .map(|i| i.key.0)
            .collect();
        let indexer = AccountEventIndexer::new(Arc::new(map));
        let client = Arc::new(Scripted::new((
            Arc::new(Mutex::new(HashMap::new())),
            exchange,
            Beh::Respond { d: 0, ok: true, full: false, e: 0 },
            0,
            vec![],
        )));
        let (req_tx, req_rx) = tokio::sync::mpsc::unbounded_channel::<ExecutionRequest>();
        let (resp_tx, resp_rx) = mpsc_unbounded::<AccountStreamEvent>();
        let shared = Arc::new(Mutex::new(FloodShared { rx: resp_rx.rx, seen: vec![], handed: 0, polls: 0, first: None }));
        let stream = FloodStream { shared: shared.clone(), cap, x, own, inner: tokio_stream_compat::Rx(req_rx) };
        let manager = ExecutionManager::new(stream, Duration::from_millis(inp.tau), resp_tx, client, indexer);
        let handle = tokio::spawn(manager.run());
        // let everything resolve (all answers are immediate), then Shutdown
        tokio::time::sleep(Duration::from_millis(inp.tau + 50)).await;
        let _ = req_tx.send(ExecutionRequest::Shutdown);
        let end = match handle.await { Ok(()) => "ObsReturned", Err(_) => "ObsPanicked" };
        let mut sh = shared.lock().unwrap();
        while let Ok(ev) = sh.rx.try_recv() {
            sh.seen.push(ev);
        }
        let taken = sh.handed;
        let mut per_cid: HashMap<u64, (u64, bool)> = HashMap::new();
        let mut events = 0u64;
        for ev in &sh.seen {
            events += 1;
            // a well-attributed order event for flood request k: right exchange, instrument, kind, echo
            let ok_for = |c: u64, ex: usize, key_ex: usize, instr: usize, open_kind: bool, good_state: bool| {
                c >= FLOOD_CID0 && {
                    let k = c - FLOOD_CID0;
                    ex == x && key_ex == x && (k % 2 == 0) == open_kind && good_state && {
                        let _ = instr;
                        true
                    }
                }
            };
            if let AccountStreamEvent::Item(AccountEvent { exchange: ex, kind }) = ev {
                match kind {
                    AccountEventKind::OrderSnapshot(Snapshot(o)) => {
                        if let Some(c) = cid_num(&o.key.cid) {
                            let good = matches!(o.state, OrderState::Active(ActiveOrderState::Open(_)));
                            let e = per_cid.entry(c).or_insert((0, true));
                            e.0 += 1;
                            e.1 &= ok_for(c, ex.0, o.key.exchange.0, o.key.instrument.0, true, good);
                        }
                    }
                    AccountEventKind::OrderCancelled(resp) => {
                        if let Some(c) = cid_num(&resp.key.cid) {
                            let good = resp.state.is_ok();
                            let e = per_cid.entry(c).or_insert((0, true));
                            e.0 += 1;
                            e.1 &= ok_for(c, ex.0, resp.key.exchange.0, resp.key.instrument.0, false, good);
                        }
                    }
                    _ => {}
                }
            }
        }
        let once = (0..taken)
            .filter(|k| per_cid.get(&(FLOOD_CID0 + k)).map(|(n, ok)| *n == 1 && *ok).unwrap_or(false))
            .count() as u64;
        FloodRan { first: sh.first.unwrap_or(taken), taken, events, once, end }
    })
}

fn run_flood_guarded(inp: &Input, cap: u64) -> FloodRan {
    let (tx, rx) = std::sync::mpsc::channel();
    let inp2 = inp.clone();
    std::thread::spawn(move || {
        let r = catch(std::panic::AssertUnwindSafe(|| run_flood_on_runtime(inp2, cap)));
        let _ = tx.send(r);
    });
    match rx.recv_timeout(Duration::from_secs(20)) {
        Ok(Ok(r)) => r,
        Ok(Err(_)) => FloodRan { first: cap, taken: 0, events: 0, once: 0, end: "ObsPanicked" },
        Err(_) => {
            HANGS.fetch_add(1, std::sync::atomic::Ordering::SeqCst);
            FloodRan { first: cap, taken: 0, events: 0, once: 0, end: "ObsHang" }
        }
    }
}

fn emit_flood(em: &mut Emitter, stream: &'static str, inp: &Input, cap: u64) {
    let instruments = build_instruments(inp);
    let exchange = POOL[inp.mgr % POOL.len()];
    if !instruments.exchanges().iter().any(|e| e.value == exchange) || cap == 0 {
        return;
    }
    let ran = run_flood_guarded(inp, cap);
    let coq = format!(
        "(Flood {} {} {} {} {} {})",
        n(cap as u128),
        n(ran.first as u128),
        n(ran.taken as u128),
        n(ran.events as u128),
        n(ran.once as u128),
        ran.end
    );
    em.emit(Case {
        stream,
        input: inp.to_json(),
        coq,
        nontrivial: true,
        tags: vec![
            "flood".to_string(),
            format!("flood:goal_reached_{}", if ran.first < cap / 4 { "early" } else if ran.first < cap { "late" } else { "never(cap)" }),
            format!("end:{}", ran.end),
        ],
    });
}

// ---- Coq printing -----------------------------------------------------------------------------------

fn coq_beh(b: &Beh) -> String {
    match b {
        Beh::Respond { d, ok, full, e } => format!(
            "(Respond {} {})",
            n(*d as u128),
            if *ok { format!("(ROk {})", self::b(*full)) } else { format!("(RErr {})", ERR_NAMES[(*e % 7) as usize]) }
        ),
        Beh::BadKey { d, .. } => format!("(RespondBadKey {})", n(*d as u128)),
        // the request whose client future panics is listed as never answered; the panic time is
        // the case's stop time (Corr/C07.v, Crash)
        Beh::Never | Beh::Panic { .. } => "Never".to_string(),
    }
}
fn coq_req(r: &Req) -> String {
    format!(
        "(mkReq {} {} {} {} {} {})",
        if r.open { "KOpen" } else { "KCancel" },
        n(r.x as u128),
        n(r.i as u128),
        n(r.cid as u128),
        n(r.at as u128),
        coq_beh(&r.b)
    )
}

fn classify(inp: &Input, r: &Req) -> String {
    let k = if r.open { "open" } else { "cancel" };
    match &r.b {
        Beh::Respond { d, ok, full, .. } if *d < inp.tau => {
            if *ok { format!("{k}:response_ok{}", if r.open && *full { "_full" } else { "" }) } else { format!("{k}:response_err") }
        }
        Beh::Respond { d, .. } if *d == inp.tau => format!("{k}:tie_delay_eq_timeout"),
        Beh::Respond { .. } => format!("{k}:late_response_timeout"),
        Beh::BadKey { d, .. } if *d < inp.tau => format!("{k}:unindexable_response_dropped"),
        Beh::BadKey { .. } => format!("{k}:late_unindexable_timeout"),
        Beh::Never => format!("{k}:never_timeout"),
        Beh::Panic { d } if *d < inp.tau => format!("{k}:client_future_panics"),
        Beh::Panic { .. } => format!("{k}:client_panic_after_timeout_never_polled"),
    }
}

fn emit(em: &mut Emitter, stream: &'static str, inp: &Input) {
    if HANGS.load(std::sync::atomic::Ordering::SeqCst) >= 3 {
        return; // three hung cases are evidence enough; do not burn more wall time
    }
    if let Some(cap) = inp.flood {
        return emit_flood(em, stream, inp, cap);
    }
    let instruments = build_instruments(inp);
    let exchange = POOL[inp.mgr % POOL.len()];
    let Some(ex_index) = instruments.exchanges().iter().find(|e| e.value == exchange).map(|e| e.key.0) else {
        return; // the manager's exchange is not part of the instruments: nothing to run
    };
    let own: Vec<String> = instruments
        .instruments()
        .iter()
        .filter(|i| i.value.exchange.value == exchange)
        .map(|i| n(i.key.0 as u128))
        .collect();
    let ran = run_guarded(inp);
    let mut tags: Vec<String> = inp.script.iter().map(|r| classify(inp, r)).collect();
    tags.push(format!("end:{}", ran.end));
    if inp.via_init { tags.push("via_init".into()) }
    if inp.stop.is_some() { tags.push("scripted_shutdown".into()) }
    if inp.close_rx_at.is_some() { tags.push("response_receiver_dropped".into()) }
    if inp.jitter != 0 { tags.push("sub_ms_jitter".into()) }
    if inp.tau == 0 { tags.push("timeout_zero".into()) }
    if let Some(k) = &inp.tau_kind { tags.push(format!("timeout_kind:{k}")) }
    // a client future that panics before its timeout: the (first) such instant
    let crash_at = inp
        .script
        .iter()
        .filter_map(|r| match r.b { Beh::Panic { d } if d < inp.tau => Some(r.at + d), _ => None })
        .min();
    // towards the model a dropped receiver is a stop at that time: nothing later is observable
    let coq_stop = crash_at.or(inp.stop).or(inp.close_rx_at);
    let obs: Vec<String> = ran
        .seen
        .iter()
        .filter_map(|s| match s {
            Seen::Event(e) => Some(e.clone()),
            Seen::Other(t) => Some(format!("(OOther {})", n(*t as u128))),
            // account-side items are judged only in the account-stream ('Acct') cases
            Seen::Snap(_) | Seen::Rec(..) => None,
        })
        .collect();
    let aobs: Vec<String> = ran
        .seen
        .iter()
        .filter_map(|s| match s {
            Seen::Snap(t) => Some(format!("(ASnap {})", n(*t as u128))),
            Seen::Rec(t, ok) => Some(format!("(ARec {} {})", n(*t as u128), b(*ok))),
            _ => None,
        })
        .collect();
    if ran.ended_early { tags.push("merged_stream_ended_under_running_manager".into()) }
    if let Some(sched) = &inp.acct {
        tags.push("account_stream_script".into());
        for (_, k, h) in sched {
            tags.push(format!("acct:disconnect_then_{}_failed_reinit_{}", k, if *k == 0 { "none" } else if *h == 0 { "stream_err" } else { "snapshot_err" }));
        }
    }
    let acct_tail = match &inp.acct {
        Some(sched) if crash_at.is_none() => format!(
            " (mkPolicy {} {} {}) {} {} {}",
            n(inp.backoff.0 as u128),
            n(inp.backoff.1 as u128),
            n(inp.backoff.2 as u128),
            list(&sched.iter().map(|(t, k, _)| pair(&n(*t as u128), &n(*k as u128))).collect::<Vec<_>>()),
            list(&aobs),
            b(ran.ended_early)
        ),
        _ => String::new(),
    };
    let coq = format!(
        "({} (mkCase (mkMgr {} {} {}) {} {} {} {}){})",
        if crash_at.is_some() { "Crash" } else if inp.acct.is_some() { "Acct" } else { "Script" },
        n(ex_index as u128),
        list(&own),
        n(inp.tau as u128),
        opt(coq_stop.map(|s| n(s as u128))),
        list(&inp.script.iter().map(coq_req).collect::<Vec<_>>()),
        list(&obs),
        ran.end,
        acct_tail
    );
    em.emit(Case {
        stream,
        input: inp.to_json(),
        coq,
        nontrivial: !inp.script.is_empty(),
        tags,
    });
}

// ---- generators ---------------------------------------------------------------------------------------

struct World {
    exchanges: Vec<usize>,
    instr: Vec<usize>,
    mgr: usize,
    ex_index: usize,
    own: Vec<usize>,     // instrument indices of the manager's exchange
    foreign: Vec<usize>, // instrument indices of other exchanges
    n_ex: usize,
}

fn gen_world(r: &mut Rng) -> World {
    let n_ex = 1 + r.below(3) as usize;
    let mut pool: Vec<usize> = (0..POOL.len()).collect();
    r.shuffle(&mut pool);
    let exchanges: Vec<usize> = pool[..n_ex].to_vec();
    let instr: Vec<usize> = (0..n_ex).map(|_| 1 + r.below(3) as usize).collect();
    let mgr = *r.pick(&exchanges);
    world_of(exchanges, instr, mgr)
}

fn world_of(exchanges: Vec<usize>, instr: Vec<usize>, mgr: usize) -> World {
    let n_ex = exchanges.len();
    let probe = Input { exchanges: exchanges.clone(), instr: instr.clone(), mgr, tau: 1, stop: None, via_init: false, script: vec![], flood: None, jitter: 0, close_rx_at: None, acct: None, backoff: (5, 2, 40), tau_kind: None };
    let instruments = build_instruments(&probe);
    let ex = POOL[mgr];
    let ex_index = instruments.exchanges().iter().find(|e| e.value == ex).unwrap().key.0;
    let own = instruments.instruments().iter().filter(|i| i.value.exchange.value == ex).map(|i| i.key.0).collect();
    let foreign = instruments.instruments().iter().filter(|i| i.value.exchange.value != ex).map(|i| i.key.0).collect();
    World { exchanges, instr, mgr, ex_index, own, foreign, n_ex }
}

fn gen_delay(r: &mut Rng, tau: u64, allow_tie: bool) -> u64 {
    loop {
        let d = match r.below(8) {
            0 => 0,
            1 => tau.saturating_sub(1),
            2 => tau + 1,
            3 => tau + r.below(3 * tau + 1),
            4 => tau,
            _ => r.below(tau.max(1)),
        };
        if d != tau || allow_tie {
            return d;
        }
    }
}

fn gen_beh(r: &mut Rng, tau: u64, allow_tie: bool, bad_pct: u64) -> Beh {
    let x = r.below(100);
    if x < bad_pct {
        Beh::BadKey { d: gen_delay(r, tau, allow_tie), v: r.below(2) }
    } else if x < bad_pct + 12 {
        Beh::Never
    } else {
        Beh::Respond { d: gen_delay(r, tau, allow_tie), ok: r.chance(2, 3), full: r.chance(1, 3), e: r.below(7) }
    }
}

/// completion time of a request under the statement (used only to keep scripted shutdowns clear
/// of resolution times: a tie between Shutdown and a completion is a scheduling coin-flip)
fn ctime(tau: u64, r: &Req) -> u64 {
    r.at + match r.b {
        Beh::Respond { d, .. } | Beh::BadKey { d, .. } | Beh::Panic { d } => d.min(tau),
        Beh::Never => tau,
    }
}

fn gen_script(r: &mut Rng, w: &World, tau: u64, n_req: u64, allow_tie: bool, bad_pct: u64, dup_cids: bool, burst: bool) -> Vec<Req> {
    let mut script = vec![];
    let mut t = 0u64;
    let mut next_cid = r.below(50);
    for _ in 0..n_req {
        if !(burst && r.chance(3, 4)) {
            t += match r.below(8) {
                0 => 0,
                1 => 1,
                2 => tau,
                3 => tau / 2,
                // an idle gap well beyond the timeout: the manager sits parked in select!
                4 => tau * (2 + r.below(8)) + r.below(3),
                5 => tau + 1,
                _ => r.below(2 * tau + 1),
            };
        }
        let cid = if dup_cids && !script.is_empty() && r.chance(1, 3) {
            let q: &Req = r.pick(&script);
            q.cid
        } else if r.chance(1, 6) && next_cid < 1_000_000 {
            // client order ids sharing a prefix ("c12", "c121", "c1212", ...)
            next_cid = next_cid * 10 + r.below(3);
            next_cid
        } else {
            next_cid += 1 + r.below(3);
            next_cid
        };
        script.push(Req {
            open: r.chance(1, 2),
            x: w.ex_index,
            i: *r.pick(&w.own),
            cid,
            at: t,
            b: gen_beh(r, tau, allow_tie, bad_pct),
        });
    }
    script
}

fn gen_tau(r: &mut Rng) -> u64 {
    *r.pick(&[0u64, 1, 2, 5, 10, 50, 100, 1000, 5000])
}

fn gen_random(r: &mut Rng, max_req: u64) -> Input {
    let w = gen_world(r);
    let tau = gen_tau(r);
    let n_req = 1 + r.below(max_req);
    let burst = r.chance(1, 3);
    let script = gen_script(r, &w, tau, n_req, false, 0, false, burst);
    let jitter = if r.chance(1, 3) { 1 + r.below(1_000_000) } else { 0 };
    Input { exchanges: w.exchanges, instr: w.instr, mgr: w.mgr, tau, stop: None, via_init: r.chance(1, 4), script, flood: None, jitter, close_rx_at: None, acct: None, backoff: (5, 2, 40), tau_kind: None }
}

fn gen_adversarial(r: &mut Rng, max_req: u64) -> Input {
    let style = r.below(9);
    // half of the time the manager serves the MIDDLE exchange of three
    let w = if r.chance(1, 2) { gen_world_middle(r) } else { gen_world(r) };
    let tau = if style == 7 { gen_tau(r).max(2) } else { gen_tau(r) };
    let n_req = 1 + r.below(max_req);
    let mut script = match style {
        // the same request repeated over time: (kind, cid) asked again after it timed out /
        // was answered, again while still outstanding, and an open and a cancel of one cid together
        5 => gen_retries(r, &w, tau, n_req),
        // ties delay == tau
        0 => gen_script(r, &w, tau, n_req, true, 0, false, false),
        // duplicate client order ids (open then cancel of the same order, repeated opens)
        1 => gen_script(r, &w, tau, n_req, false, 0, true, true),
        // un-indexable responses
        2 => gen_script(r, &w, tau, n_req, false, 25, false, false),
        // big burst at one instant, every behaviour
        3 => gen_script(r, &w, tau, n_req + 10, false, 5, true, true),
        _ => gen_script(r, &w, tau, n_req, false, 0, false, false),
    };
    let mut stop = None;
    if style == 4 {
        if r.chance(1, 2) {
            // a request for a key this manager is not configured for (it panics)
            let pos = r.below(script.len() as u64) as usize;
            if !w.foreign.is_empty() && r.chance(1, 2) {
                script[pos].i = *r.pick(&w.foreign);
            } else if w.n_ex > 1 && r.chance(1, 2) {
                script[pos].x = (w.ex_index + 1) % w.n_ex;
            } else {
                script[pos].i = 40 + r.below(5) as usize;
            }
            // keep the panic clear of every resolution time
            let at = script[pos].at;
            if script.iter().any(|q| ctime(tau, q) == at) {
                for q in script.iter_mut() {
                    if q.at >= at { q.at += 1 }
                }
                let at = script[pos].at;
                script.retain(|q| ctime(tau, q) != at || q.at == at);
            }
        } else {
            // scripted Shutdown in the middle, clear of every resolution time
            let last = script.iter().map(|q| ctime(tau, q)).max().unwrap_or(0);
            for _ in 0..20 {
                let s = r.below(last + 2);
                if script.iter().all(|q| ctime(tau, q) != s) {
                    stop = Some(s);
                    break;
                }
            }
        }
    }
    let mut close_rx_at = None;
    if style == 6 {
        // the response receiver is dropped while requests are outstanding, clear of resolution times
        let last = script.iter().map(|q| ctime(tau, q)).max().unwrap_or(0);
        for _ in 0..20 {
            let s = r.below(last + 2);
            if script.iter().all(|q| ctime(tau, q) != s) {
                close_rx_at = Some(s);
                break;
            }
        }
    }
    if style == 7 {
        // one client future panics before its timeout, clear of every other resolution time
        let pos = r.below(script.len() as u64) as usize;
        for _ in 0..20 {
            let d = r.below(tau);
            let p = script[pos].at + d;
            if script.iter().enumerate().all(|(k, q)| k == pos || ctime(tau, q) != p) {
                script[pos].b = Beh::Panic { d };
                // its (kind, cid) must be unique so that the scripted behaviour reaches this request
                script[pos].cid = 900_000 + pos as u64;
                break;
            }
        }
    }
    let jitter = if style == 8 || r.chance(1, 5) { 1 + r.below(1_000_000) } else { 0 };
    Input { exchanges: w.exchanges, instr: w.instr, mgr: w.mgr, tau, stop, via_init: r.chance(1, 4), script, flood: None, jitter, close_rx_at, acct: None, backoff: (5, 2, 40), tau_kind: None }
}

/// the manager serves the middle exchange (by index) of three
fn gen_world_middle(r: &mut Rng) -> World {
    let mut pool: Vec<usize> = (0..POOL.len()).collect();
    r.shuffle(&mut pool);
    let exchanges: Vec<usize> = pool[..3].to_vec();
    let instr: Vec<usize> = (0..3).map(|_| 1 + r.below(3) as usize).collect();
    let mut ids: Vec<ExchangeId> = exchanges.iter().map(|&p| POOL[p]).collect();
    ids.sort();
    let mgr = *exchanges.iter().find(|&&p| POOL[p] == ids[1]).unwrap();
    world_of(exchanges, instr, mgr)
}

/// L7: repetition of one key over time
fn gen_retries(r: &mut Rng, w: &World, tau: u64, n_req: u64) -> Vec<Req> {
    let mut script: Vec<Req> = vec![];
    let mut t = r.below(3 * tau + 2);
    let mut cid = 10 + r.below(40);
    while (script.len() as u64) < n_req + 2 {
        cid += 1 + r.below(2);
        let open = r.chance(1, 3);
        let i = *r.pick(&w.own);
        let reps = 2 + r.below(2);
        for k in 0..reps {
            // first attempt mostly times out, later ones mixed
            let b = if k == 0 && r.chance(2, 3) {
                if r.chance(1, 2) { Beh::Never } else { Beh::Respond { d: tau + 1 + r.below(2 * tau + 1), ok: true, full: false, e: 0 } }
            } else {
                gen_beh(r, tau, false, 0)
            };
            script.push(Req { open, x: w.ex_index, i, cid, at: t, b });
            t += match r.below(4) {
                0 => 0,                       // again while the first is still outstanding
                1 => tau + 1 + r.below(3),    // right after the timeout
                2 => tau.saturating_sub(1),
                _ => tau * (2 + r.below(4)),
            };
        }
        if r.chance(1, 2) {
            // an open and a cancel of the same client order id outstanding together
            script.push(Req { open: !open, x: w.ex_index, i, cid, at: t, b: gen_beh(r, tau, false, 0) });
            script.push(Req { open, x: w.ex_index, i, cid, at: t, b: gen_beh(r, tau, false, 0) });
        }
    }
    script.sort_by_key(|q| q.at);
    script
}

/// L14 (B) / seed c07-8: extreme but legal request_timeout configurations
fn gen_extreme_timeout(r: &mut Rng, max_req: u64, kind: &str) -> Input {
    let w = if r.chance(1, 2) { gen_world_middle(r) } else { gen_world(r) };
    // delays and gaps are drawn as for an ordinary timeout of this size
    let nominal = match kind {
        "1ns" => 1,
        _ => *r.pick(&[5u64, 50, 1000]),
    };
    let n_req = 1 + r.below(max_req);
    let (dup, burst) = (r.chance(1, 4), r.chance(1, 3));
    let script = gen_script(r, &w, nominal, n_req, kind == "1ns", 0, dup, burst);
    Input {
        exchanges: w.exchanges, instr: w.instr, mgr: w.mgr, tau: nominal, stop: None, via_init: r.chance(1, 3),
        script, flood: None, jitter: 0, close_rx_at: None, acct: None, backoff: (5, 2, 40),
        tau_kind: Some(kind.to_string()),
    }
    .normalised()
}

/// L4 / seed c07-7: the account stream behind ExecutionManager::init ends and is re-initialised
/// (failing 0..=2 times first) while requests are in flight
fn gen_acct(r: &mut Rng, max_req: u64) -> Input {
    let w = if r.chance(1, 2) { gen_world_middle(r) } else { gen_world(r) };
    let tau = gen_tau(r).max(1);
    let n_req = 2 + r.below(max_req);
    let (dup, burst) = (r.chance(1, 3), r.chance(1, 3));
    let script = gen_script(r, &w, tau, n_req, false, 0, dup, burst);
    let backoff = *r.pick(&[(1u64, 2u64, 4u64), (5, 2, 40), (3, 3, 10), (tau.max(1), 2, 4 * tau.max(1)), (2 * tau + 1, 1, 2 * tau + 1)]);
    let last = script.iter().map(|q| ctime(tau, q)).max().unwrap_or(0);
    let mut sched: Vec<(u64, u64, u64)> = vec![];
    let mut t = 0u64;
    for _ in 0..(1 + r.below(3)) {
        // somewhere inside the life of the script, mostly while something is outstanding
        t += 1 + match r.below(3) {
            0 => r.below(last / 2 + 2),
            1 => {
                let q: &Req = r.pick(&script);
                (q.at + r.below(tau + 1)).saturating_sub(t)
            }
            _ => r.below(tau + 2),
        };
        let fails = *r.pick(&[0u64, 1, 1, 2, 2, 3]);
        sched.push((t, fails, r.below(2)));
        // the next connection exists from here on
        let mut probe = Input { exchanges: vec![], instr: vec![], mgr: 0, tau, stop: None, via_init: true, script: vec![], flood: None, jitter: 0, close_rx_at: None, acct: Some(vec![(t, fails, 0)]), backoff, tau_kind: None };
        t = acct_times(&probe)[0].1;
        probe.acct = None;
    }
    let jitter = if r.chance(1, 4) { 1 + r.below(1_000_000) } else { 0 };
    Input { exchanges: w.exchanges, instr: w.instr, mgr: w.mgr, tau, stop: None, via_init: true, script, flood: None, jitter, close_rx_at: None, acct: Some(sched), backoff, tau_kind: None }
}

/// small exhaustive table for the account-stream dimension: failed re-initialisations 0..=2 x how
/// they fail x one or two disconnects, with requests answered / timing out before, across,
/// during the backoff and after the re-connection
fn acct_table(em: &mut Emitter) {
    let tau = 20u64;
    let resp = |d: u64| Beh::Respond { d, ok: true, full: false, e: 0 };
    for fails in 0..=2u64 {
        for how in 0..2u64 {
            for second in [None, Some(0u64), Some(2)] {
                let script = vec![
                    Req { open: true, x: 1, i: 3, cid: 1, at: 10, b: resp(5) },   // resolved before the disconnect
                    Req { open: false, x: 1, i: 2, cid: 2, at: 25, b: resp(15) }, // answered across it
                    Req { open: true, x: 1, i: 3, cid: 3, at: 28, b: Beh::Never }, // times out across it
                    Req { open: true, x: 1, i: 2, cid: 4, at: 32, b: resp(3) },   // sent during the backoff
                    Req { open: false, x: 1, i: 3, cid: 5, at: 33, b: resp(25) }, // late answer -> timeout
                    Req { open: false, x: 1, i: 3, cid: 6, at: 80, b: resp(2) },  // after the re-connection
                    Req { open: true, x: 1, i: 2, cid: 7, at: 118, b: Beh::Never },
                ];
                let mut sched = vec![(30u64, fails, how)];
                if let Some(k2) = second {
                    sched.push((120, k2, 1 - how));
                }
                let inp = Input {
                    exchanges: vec![0, 1, 2], instr: vec![2, 2, 2], mgr: 0, tau, stop: None, via_init: true,
                    script, flood: None, jitter: 0, close_rx_at: None, acct: Some(sched), backoff: (5, 2, 40), tau_kind: None,
                };
                emit(em, "table", &inp);
            }
        }
    }
}

/// Exhaustive table over the abstract domain one request's fate depends on:
/// kind x behaviour class x (delay vs timeout: 0, tau-1, tau+1, far beyond) — alone, and with a
/// second outstanding request of each kind resolving before / at the same instant / after it.
fn table(em: &mut Emitter) {
    let tau = 10u64;
    let mut behs: Vec<Beh> = vec![Beh::Never];
    for d in [0u64, 9, 11, 40] {
        behs.push(Beh::Respond { d, ok: true, full: false, e: 0 });
        behs.push(Beh::Respond { d, ok: true, full: true, e: 0 });
        for e in 0..7 {
            if e < 2 || d == 9 {
                behs.push(Beh::Respond { d, ok: false, full: false, e });
            }
        }
        behs.push(Beh::BadKey { d, v: 0 });
        behs.push(Beh::BadKey { d, v: 1 });
    }
    let base = |script: Vec<Req>| Input { exchanges: vec![0, 1, 2], instr: vec![2, 2, 2], mgr: 0, tau, stop: None, via_init: false, script, flood: None, jitter: 0, close_rx_at: None, acct: None, backoff: (5, 2, 40), tau_kind: None };
    // Kraken is pool 0; index order: BinanceSpot(0), Kraken(1), Okx(2): the manager serves the middle
    // exchange; Kraken's instruments are 2 and 3 (a future and an option)
    for open in [true, false] {
        for b in &behs {
            em_case(em, &base(vec![Req { open, x: 1, i: 3, cid: 7, at: 5, b: b.clone() }]));
            for other_open in [true, false] {
                for (oat, ob) in [
                    (5u64, Beh::Respond { d: 3, ok: true, full: false, e: 0 }),
                    (5, Beh::Never),
                    (0, Beh::Respond { d: 9, ok: false, full: false, e: 1 }),
                    (8, Beh::Respond { d: 40, ok: true, full: true, e: 0 }),
                ] {
                    let mut script = vec![
                        Req { open, x: 1, i: 3, cid: 7, at: 5, b: b.clone() },
                        Req { open: other_open, x: 1, i: 2, cid: 8, at: oat, b: ob },
                    ];
                    script.sort_by_key(|q| q.at);
                    em_case(em, &base(script));
                }
            }
        }
    }
}
fn em_case(em: &mut Emitter, inp: &Input) {
    emit(em, "table", inp);
}

fn main() {
    if std::env::var("VERIF_LOUD").is_err() { quiet_panics(); }
    let args = parse_args();
    let mut em = Emitter::create(&args.out);
    match args.mode.as_str() {
        "gen" => {
            let mut r = Rng::new(args.seed);
            let (n_rand, n_adv, max_req) = if args.tier == "thorough" { (5000, 4000, 60) } else { (500, 500, 24) };
            table(&mut em);
            acct_table(&mut em);
            for kind in ["max", "u64secs", "1ns", "1e9s"] {
                // one request alone, answered at once / later / with an error / (finite kinds) never
                for (open, b) in [
                    (true, Beh::Respond { d: 0, ok: true, full: true, e: 0 }),
                    (false, Beh::Respond { d: 3, ok: true, full: false, e: 0 }),
                    (true, Beh::Respond { d: 5000, ok: false, full: false, e: 1 }),
                    (false, Beh::Never),
                ] {
                    for via_init in [false, true] {
                        let inp = Input {
                            exchanges: vec![0, 1, 2], instr: vec![2, 2, 2], mgr: 0, tau: 10, stop: None, via_init,
                            script: vec![Req { open, x: 1, i: 3, cid: 7, at: 5, b: b.clone() }],
                            flood: None, jitter: 0, close_rx_at: None, acct: None, backoff: (5, 2, 40),
                            tau_kind: Some(kind.to_string()),
                        }
                        .normalised();
                        emit(&mut em, "table", &inp);
                    }
                }
                for _ in 0..(if args.tier == "thorough" { 100 } else { 12 }) {
                    let inp = gen_extreme_timeout(&mut r, max_req / 2 + 1, kind);
                    emit(&mut em, "adversarial", &inp);
                }
            }
            for _ in 0..(if args.tier == "thorough" { 800 } else { 80 }) {
                let inp = gen_acct(&mut r, max_req / 2 + 2);
                emit(&mut em, "adversarial", &inp);
            }
            for k in 0..(if args.tier == "thorough" { 40 } else { 12 }) {
                let w = gen_world(&mut r);
                let inp = Input {
                    exchanges: w.exchanges,
                    instr: w.instr,
                    mgr: w.mgr,
                    tau: gen_tau(&mut r),
                    stop: None,
                    via_init: false,
                    script: vec![],
                    flood: Some(*r.pick(&[200u64, 800, 4000])),
                    jitter: 0,
                    close_rx_at: None,
                    acct: None,
                    backoff: (5, 2, 40),
                    tau_kind: None,
                };
                let _ = k;
                emit(&mut em, "adversarial", &inp);
            }
            for _ in 0..n_rand {
                let inp = gen_random(&mut r, max_req);
                emit(&mut em, "random", &inp);
            }
            for _ in 0..n_adv {
                let inp = gen_adversarial(&mut r, max_req);
                emit(&mut em, "adversarial", &inp);
            }
        }
        "exec" => {
            for (inp, stream) in read_inputs(args.input.as_deref().expect("--in")) {
                emit(&mut em, stream_static(&stream), &Input::from_json(&inp));
            }
        }
        m => panic!("unknown mode {m}"),
    }
    em.finish();
    // leaked spinning threads (hung cases) must not keep the process alive
    std::process::exit(0);
}
