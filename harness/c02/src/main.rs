//! C02 correspondence harness: drives barter's PositionManager::update_from_trade (and, in
//! parallel, InstrumentState::update_from_trade with its tear-sheet side effect) on generated fill
//! sequences and prints fills + every observed position / PositionExited as Coq terms
//! (Corr/C02.v).
use barter::{
    engine::state::{
        instrument::{InstrumentState, data::DefaultInstrumentMarketData},
        order::Orders,
        position::{Position, PositionExited, PositionManager},
    },
    statistic::summary::instrument::TearSheetGenerator,
};
use barter_execution::{
    order::id::{OrderId, StrategyId},
    trade::{AssetFees, Trade, TradeId},
};
use barter_instrument::{
    Side, Underlying,
    asset::QuoteAsset,
    exchange::ExchangeId,
    instrument::{
        Instrument, InstrumentIndex,
        name::InstrumentNameInternal,
        kind::{
            InstrumentKind,
            future::FutureContract,
            option::{OptionContract, OptionExercise, OptionKind},
            perpetual::PerpetualContract,
        },
        quote::InstrumentQuoteAsset,
    },
};
use chrono::{DateTime, TimeZone, Utc};
use rust_decimal::Decimal;
use serde_json::{Value, json};
use vh_common::*;

#[derive(Clone, Debug)]
pub struct F {
    pub id: u64,
    pub inst: u64,
    pub time: i64,
    pub buy: bool,
    pub price: Decimal,
    pub qty: Decimal,
    pub fee: Decimal,
}

fn time_of(ms: i64) -> DateTime<Utc> {
    Utc.timestamp_millis_opt(ms).unwrap()
}

impl F {
    fn to_json(&self) -> Value {
        json!({"id": self.id, "inst": self.inst, "time": self.time,
               "side": if self.buy { "buy" } else { "sell" },
               "price": self.price.to_string(), "qty": self.qty.to_string(), "fee": self.fee.to_string()})
    }
    fn from_json(v: &Value) -> F {
        F {
            id: v["id"].as_u64().unwrap(),
            inst: v["inst"].as_u64().unwrap(),
            time: v["time"].as_i64().unwrap(),
            buy: v["side"] == "buy",
            price: json_dec(&v["price"]),
            qty: json_dec(&v["qty"]),
            fee: json_dec(&v["fee"]),
        }
    }
    fn trade(&self) -> Trade<QuoteAsset, InstrumentIndex> {
        Trade {
            id: TradeId::new(format!("t{}", self.id)),
            order_id: OrderId::new(format!("o{}", self.id)),
            instrument: InstrumentIndex(self.inst as usize),
            strategy: StrategyId::new("s"),
            time_exchange: time_of(self.time),
            side: if self.buy { Side::Buy } else { Side::Sell },
            price: self.price,
            quantity: self.qty,
            fees: AssetFees::quote_fees(self.fee),
        }
    }
    fn coq(&self) -> String {
        format!(
            "(mkOF {} {} {} {} {} {} {})",
            n(self.id as u128),
            n(self.inst as u128),
            z(self.time as i128),
            if self.buy { "Buy" } else { "Sell" },
            dec_q(self.price),
            dec_q(self.qty),
            dec_q(self.fee)
        )
    }
}

fn side_s(s: Side) -> &'static str {
    match s {
        Side::Buy => "Buy",
        Side::Sell => "Sell",
    }
}
fn trade_ids(ts: &[TradeId]) -> String {
    list(
        &ts.iter()
            .map(|t| {
                let s = t.0.as_str();
                n(s.strip_prefix('t').expect("trade id").parse::<u128>().expect("trade id number"))
            })
            .collect::<Vec<_>>(),
    )
}
fn ms(t: DateTime<Utc>) -> String {
    z(t.timestamp_millis() as i128)
}

pub fn coq_pos(p: &Position<QuoteAsset, InstrumentIndex>) -> String {
    format!(
        "(mkOP {} {} {} {} {} {} {} {} {} {} {} {})",
        n(p.instrument.0 as u128),
        side_s(p.side),
        dec_q(p.price_entry_average),
        dec_q(p.quantity_abs),
        dec_q(p.quantity_abs_max),
        dec_q(p.pnl_unrealised),
        dec_q(p.pnl_realised),
        dec_q(p.fees_enter.fees),
        dec_q(p.fees_exit.fees),
        ms(p.time_enter),
        ms(p.time_exchange_update),
        trade_ids(&p.trades)
    )
}
pub fn coq_exit(x: &PositionExited<QuoteAsset, InstrumentIndex>) -> String {
    format!(
        "(mkOX {} {} {} {} {} {} {} {} {} {})",
        n(x.instrument.0 as u128),
        side_s(x.side),
        dec_q(x.price_entry_average),
        dec_q(x.quantity_abs_max),
        dec_q(x.pnl_realised),
        dec_q(x.fees_enter.fees),
        dec_q(x.fees_exit.fees),
        ms(x.time_enter),
        ms(x.time_exit),
        trade_ids(&x.trades)
    )
}

/// the instrument the InstrumentState path is built for: kind (0 spot, 1 perpetual, 2 future,
/// 3 option), contract size, settlement asset = quote asset or another one. The position code never
/// reads it; it is varied so that a change that starts reading it is seen.
#[derive(Clone, Copy, Debug)]
pub struct Ik {
    kind: u64,
    size: Decimal,
    settle_quote: bool,
}

impl Ik {
    fn spot() -> Ik {
        Ik { kind: 0, size: Decimal::ONE, settle_quote: true }
    }
    fn to_json(&self) -> Value {
        json!({"kind": self.kind, "size": self.size.to_string(), "settle_quote": self.settle_quote})
    }
    fn from_json(v: &Value) -> Ik {
        if v.is_null() {
            return Ik::spot();
        }
        Ik {
            kind: v["kind"].as_u64().unwrap_or(0),
            size: if v["size"].is_null() { Decimal::ONE } else { json_dec(&v["size"]) },
            settle_quote: v["settle_quote"].as_bool().unwrap_or(true),
        }
    }
    fn coq_meta(&self, restores: &[bool], rt_ok: bool, rejected_at: &[usize], rej_ok: bool) -> String {
        let rej: Vec<String> = rejected_at.iter().map(|k| n(*k as u128 + 1)).collect();
        let size = if self.kind == 0 { Decimal::ONE } else { self.size };
        let idx: Vec<String> =
            restores.iter().enumerate().filter(|(_, r)| **r).map(|(k, _)| n(k as u128 + 1)).collect();
        format!("(mkMeta {} {} {} {} {} {})", n(self.kind.min(3) as u128), dec_q(size), list(&idx), b(rt_ok), list(&rej), b(rej_ok))
    }
    fn tag(&self) -> String {
        format!(
            "instrument_state_{}_size_{}",
            ["spot", "perp", "future", "option"][self.kind.min(3) as usize],
            if self.kind == 0 { Decimal::ONE } else { self.size.normalize() }
        )
    }
}

fn new_instrument_state(
    inst: u64,
    ik: Ik,
) -> InstrumentState<DefaultInstrumentMarketData, ExchangeId, String, InstrumentIndex> {
    let settle: String = if ik.settle_quote { "usdt".to_string() } else { "usdc".to_string() };
    let expiry = time_of(1_900_000_000_000);
    let kind = match ik.kind {
        0 => InstrumentKind::Spot,
        1 => InstrumentKind::Perpetual(PerpetualContract { contract_size: ik.size, settlement_asset: settle }),
        2 => InstrumentKind::Future(FutureContract { contract_size: ik.size, settlement_asset: settle, expiry }),
        _ => InstrumentKind::Option(OptionContract {
            contract_size: ik.size,
            settlement_asset: settle,
            kind: OptionKind::Put,
            exercise: OptionExercise::American,
            expiry,
            strike: mk_dec(100, 0),
        }),
    };
    InstrumentState::new(
        InstrumentIndex(inst as usize),
        Instrument::new(
            if ik.kind == 0 { ExchangeId::BinanceSpot } else { ExchangeId::Okx },
            "okx_btc_usdt_x",
            "BTCUSDTX",
            Underlying::new("btc".to_string(), "usdt".to_string()),
            InstrumentQuoteAsset::UnderlyingQuote,
            kind,
            None,
        ),
        TearSheetGenerator::init(time_of(0)),
        PositionManager::default(),
        Orders::default(),
        DefaultInstrumentMarketData::default(),
    )
}

fn name_trade(t: &Trade<QuoteAsset, InstrumentIndex>, inst: u64) -> Trade<QuoteAsset, InstrumentNameInternal> {
    Trade {
        id: t.id.clone(),
        order_id: t.order_id.clone(),
        instrument: InstrumentNameInternal::new(format!("instrument_{}", inst)),
        strategy: t.strategy.clone(),
        time_exchange: t.time_exchange,
        side: t.side,
        price: t.price,
        quantity: t.quantity,
        fees: t.fees.clone(),
    }
}

/// a fill for another instrument (index + 7): kind 1 same side, kind 2 the size that would close
/// the open position exactly, kind 3 a size that would flip it
fn foreign_fill(f: &F, open: &Position<QuoteAsset, InstrumentIndex>, kind: u64) -> F {
    let long = open.side == Side::Buy;
    let (buy, qty) = match kind {
        1 => (long, f.qty),
        2 => (!long, open.quantity_abs),
        _ => (!long, open.quantity_abs + f.qty),
    };
    F { id: 900_000 + f.id, inst: f.inst + 7, time: f.time + 1, buy, price: f.price, qty, fee: f.fee }
}

/// persist / restore: serialise to JSON and read back. Returns the restored value (the original
/// if it cannot even be read back) and whether it equals the original.
fn round_trip<T>(x: &T) -> (T, bool)
where
    T: serde::Serialize + serde::de::DeserializeOwned + PartialEq + Clone,
{
    let restored = serde_json::to_string(x).ok().and_then(|s| serde_json::from_str::<T>(&s).ok());
    match restored {
        Some(y) => {
            let same = y == *x;
            (y, same)
        }
        None => (x.clone(), false),
    }
}

/// the same position under another instrument key type (all fields but the key)
fn same_position<A, B>(a: &Option<Position<QuoteAsset, A>>, b: &Option<Position<QuoteAsset, B>>) -> bool {
    match (a, b) {
        (None, None) => true,
        (Some(a), Some(b)) => {
            a.side == b.side
                && a.price_entry_average == b.price_entry_average
                && a.quantity_abs == b.quantity_abs
                && a.quantity_abs_max == b.quantity_abs_max
                && a.pnl_unrealised == b.pnl_unrealised
                && a.pnl_realised == b.pnl_realised
                && a.fees_enter == b.fees_enter
                && a.fees_exit == b.fees_exit
                && a.time_enter == b.time_enter
                && a.time_exchange_update == b.time_exchange_update
                && a.trades == b.trades
        }
        _ => false,
    }
}
fn same_exit<A, B>(a: &Option<PositionExited<QuoteAsset, A>>, b: &Option<PositionExited<QuoteAsset, B>>) -> bool {
    match (a, b) {
        (None, None) => true,
        (Some(a), Some(b)) => {
            a.side == b.side
                && a.price_entry_average == b.price_entry_average
                && a.quantity_abs_max == b.quantity_abs_max
                && a.pnl_realised == b.pnl_realised
                && a.fees_enter == b.fees_enter
                && a.fees_exit == b.fees_exit
                && a.time_enter == b.time_enter
                && a.time_exit == b.time_exit
                && a.trades == b.trades
        }
        _ => false,
    }
}

/// what happened at one fill, as seen from outside (for the evidence's branch distribution)
fn classify(
    before: &Option<Position<QuoteAsset, InstrumentIndex>>,
    after: &Option<Position<QuoteAsset, InstrumentIndex>>,
    exit: &Option<PositionExited<QuoteAsset, InstrumentIndex>>,
    f: &F,
) -> String {
    let base = match (before, after, exit) {
        (None, Some(_), None) => "open",
        (Some(_), None, Some(_)) => "close_exact",
        (Some(_), Some(_), Some(_)) => "flip",
        (Some(b), Some(a), None) => {
            if a.quantity_abs > b.quantity_abs {
                if a.quantity_abs_max > b.quantity_abs_max {
                    "increase_new_max"
                } else {
                    "increase_below_max"
                }
            } else if a.quantity_abs < b.quantity_abs {
                "reduce"
            } else {
                "ignored"
            }
        }
        _ => "other",
    };
    format!(
        "{}_{}_{}",
        base,
        if f.buy { "buy" } else { "sell" },
        if f.fee.is_zero() { "fee0" } else { "fee" }
    )
}

fn run_case(fills: &[F], ik: Ik, restores: &[bool], rejects: &[u64]) -> (String, Vec<String>) {
    let mut tags = vec![ik.tag()];
    let mut rt_ok = true;
    let mut rej_ok = true;
    let mut rejected_at: Vec<usize> = vec![];
    let reject_kind = |k: usize| rejects.get(k).copied().unwrap_or(0);
    let restore_at = |k: usize| restores.get(k).copied().unwrap_or(false);
    // path 1: PositionManager directly; a panic ends the observation list early
    let mut pm: PositionManager<InstrumentIndex> = PositionManager::default();
    let mut obs = vec![];
    // the same fills on a PositionManager keyed by instrument NAME, with the same restore steps
    let mut pm_name: PositionManager<InstrumentNameInternal> = PositionManager::default();
    let mut agrees = true;
    for (k, f) in fills.iter().enumerate() {
        let before = pm.current.clone();
        let t = f.trade();
        let mut pm2 = pm.clone();
        let r = catch(move || {
            let x = pm2.update_from_trade(&t);
            (pm2, x)
        });
        match r {
            Ok((pm2, x)) => {
                pm = pm2;
                tags.push(classify(&before, &pm.current, &x, f));
                obs.push(format!(
                    "(mkOS {} {})",
                    opt(pm.current.as_ref().map(coq_pos)),
                    opt(x.as_ref().map(coq_exit))
                ));
                let t = f.trade();
                let tn = name_trade(&t, f.inst);
                let xn = pm_name.update_from_trade(&tn);
                agrees &= same_exit(&x, &xn) && same_position(&pm.current, &pm_name.current);
                if restore_at(k) {
                    tags.push(if pm.current.is_some() { "restore_with_open_position" } else { "restore_flat" }.to_string());
                    let (r1, ok1) = round_trip(&pm);
                    pm = r1;
                    let (r2, ok2) = round_trip(&pm_name);
                    pm_name = r2;
                    rt_ok &= ok1 && ok2;
                }
                // rejected input: a fill for ANOTHER instrument while a position is open must
                // return no closed record and leave the whole manager as it was
                if reject_kind(k) > 0 {
                    if let Some(open) = pm.current.clone() {
                        let foreign = foreign_fill(f, &open, reject_kind(k));
                        let tf = foreign.trade();
                        let before_idx = pm.clone();
                        let before_name = pm_name.clone();
                        let mut tfn = name_trade(&tf, foreign.inst);
                        tfn.instrument = InstrumentNameInternal::new(format!("instrument_{}", foreign.inst));
                        let mut pma = pm.clone();
                        let mut pmb = pm_name.clone();
                        let r = catch(move || {
                            let xa = pma.update_from_trade(&tf);
                            let xb = pmb.update_from_trade(&tfn);
                            (pma, pmb, xa.is_none() && xb.is_none())
                        });
                        match r {
                            Ok((pma, pmb, none)) => {
                                rej_ok &= none && pma == before_idx && pmb == before_name;
                                pm = pma;
                                pm_name = pmb;
                            }
                            Err(_) => rej_ok = false,
                        }
                        rejected_at.push(k);
                        tags.push(format!("foreign_fill_kind{}_while_open", reject_kind(k)));
                    } else {
                        tags.push("foreign_fill_skipped_flat".to_string());
                    }
                }
            }
            Err(_) => {
                tags.push("panic".to_string());
                break;
            }
        }
    }
    // path 2: InstrumentState::update_from_trade (also feeds the tear sheet). The tear-sheet
    // statistics (squares of returns) can overflow Decimal on extreme magnitude mixes: that is
    // outside this property, the comparison then stops at that fill and no tear sheet is reported.
    let mut st = new_instrument_state(fills.first().map(|f| f.inst).unwrap_or(0), ik);
    let mut pm2: PositionManager<InstrumentIndex> = PositionManager::default();
    let mut ts_ok = true;
    for (k, f) in fills.iter().enumerate() {
        if k >= obs.len() {
            break;
        }
        let t = f.trade();
        let x1 = pm2.update_from_trade(&t);
        let mut st2 = st.clone();
        match catch(move || {
            let x2 = st2.update_from_trade(&t);
            (st2, x2)
        }) {
            Ok((st2, x2)) => {
                st = st2;
                agrees &= x1 == x2 && pm2.current == st.position.current;
                if restore_at(k) {
                    let (r, ok) = round_trip(&st);
                    st = r;
                    rt_ok &= ok;
                }
                if rejected_at.contains(&k) {
                    if let Some(open) = st.position.current.clone() {
                        let tf = foreign_fill(f, &open, reject_kind(k)).trade();
                        let before = st.clone();
                        let mut st3 = st.clone();
                        match catch(move || {
                            let x = st3.update_from_trade(&tf);
                            (st3, x.is_none())
                        }) {
                            Ok((st3, none)) => {
                                rej_ok &= none && st3 == before;
                                st = st3;
                            }
                            Err(_) => rej_ok = false,
                        }
                    }
                }
            }
            Err(_) => {
                tags.push("tear_sheet_statistics_panicked".to_string());
                ts_ok = false;
                break;
            }
        }
    }
    let ts = if ts_ok {
        format!(
            "(Some ({}, {}))",
            n(st.tear_sheet.pnl_returns.total.count.trunc().mantissa() as u128),
            dec_q(st.tear_sheet.pnl_returns.pnl_raw)
        )
    } else {
        "None".to_string()
    };
    let coq = format!(
        "(CFills {} {} {} {} {})",
        list(&fills.iter().map(|f| f.coq()).collect::<Vec<_>>()),
        list(&obs),
        b(agrees),
        ts,
        ik.coq_meta(restores, rt_ok, &rejected_at, rej_ok)
    );
    if !rej_ok {
        tags.push("foreign_fill_not_rejected_cleanly".to_string());
    }
    if !rt_ok {
        tags.push("roundtrip_changed".to_string());
    }
    (coq, tags)
}

fn emit(em: &mut Emitter, stream: &'static str, fills: &[F], ik: Ik, restores: &[bool], rejects: &[u64]) {
    // a panic anywhere in the case (outside the per-fill catch) must not take the harness down:
    // report an empty observation list, which neither corr_b nor prop_b accept
    let fills2 = fills.to_vec();
    let restores2 = restores.to_vec();
    let rejects2 = rejects.to_vec();
    let (coq, tags) = match catch(move || run_case(&fills2, ik, &restores2, &rejects2)) {
        Ok(x) => x,
        Err(msg) => (
            format!(
                "(CFills {} [] false None {})",
                list(&fills.iter().map(|f| f.coq()).collect::<Vec<_>>()),
                ik.coq_meta(restores, false, &[], false)
            ),
            vec![format!("panic:{}", msg.chars().take(60).collect::<String>())],
        ),
    };
    em.emit(Case {
        stream,
        input: json!({"fills": fills.iter().enumerate().map(|(k, f)| {
            let mut j = f.to_json();
            if restores.get(k).copied().unwrap_or(false) {
                j["restore_after"] = json!(true);
            }
            if rejects.get(k).copied().unwrap_or(0) > 0 {
                j["foreign_after"] = json!(rejects[k]);
            }
            j
        }).collect::<Vec<_>>(), "instrument": ik.to_json()}),
        coq,
        nontrivial: fills.len() >= 2,
        tags,
    });
}

// ---- generators ---------------------------------------------------------------------------

#[derive(Clone, Copy)]
enum Mag {
    Tiny,
    Grid,
    Mid,
    Huge,
}

fn gen_price(r: &mut Rng, m: Mag) -> Decimal {
    match m {
        Mag::Tiny => mk_dec(r.range(1, 5_000), 8),
        Mag::Grid => mk_dec(r.range(90, 110), 0),
        Mag::Mid => mk_dec(r.range(900_000, 1_100_000), 4),
        Mag::Huge => mk_dec(r.range(100_000_000, 999_999_999), 0),
    }
}
fn gen_qty(r: &mut Rng, m: Mag) -> Decimal {
    match m {
        Mag::Tiny => mk_dec(r.range(1, 2_000), 8),
        Mag::Grid => mk_dec(r.range(1, 4), 0),
        Mag::Mid => mk_dec(r.range(1, 50_000), 3),
        Mag::Huge => mk_dec(r.range(1, 999_999_999), 0),
    }
}
fn gen_fee(r: &mut Rng, price: Decimal, qty: Decimal) -> Decimal {
    match r.below(6) {
        0 | 1 => Decimal::ZERO,
        2 => price * qty * mk_dec(1, 3),
        3 => price * qty * mk_dec(5, 4),
        4 => price * qty * mk_dec(75, 5),
        _ => price * qty * mk_dec(r.range(1, 100), 3),
    }
}

/// mostly-valid history; [adv] adds equal / decreasing timestamps, duplicate trade ids and mixed
/// magnitudes
fn gen_history(r: &mut Rng, max_len: u64, adv: bool) -> Vec<F> {
    let len = 1 + r.below(max_len);
    let mags = [Mag::Tiny, Mag::Grid, Mag::Grid, Mag::Mid, Mag::Mid, Mag::Huge];
    let mag = *r.pick(&mags);
    let inst = r.below(3);
    let mut net = Decimal::ZERO; // generator-side bookkeeping only, to aim at closes and flips
    let mut time = 1_700_000_000_000i64 + r.below(1_000_000) as i64;
    let mut fills: Vec<F> = vec![];
    for k in 0..len {
        let m = if adv && r.chance(1, 6) { *r.pick(&mags) } else { mag };
        let price = gen_price(r, m);
        let (buy, qty) = if !net.is_zero() && r.chance(3, 5) {
            // act against the open position: reduce / exact close / flip
            let buy = net.is_sign_negative();
            let abs = net.abs();
            let qty = match r.below(5) {
                0 | 1 => abs, // exact close
                2 => {
                    // flip: more than the open quantity
                    abs + gen_qty(r, m)
                }
                3 => {
                    // reduce by a fraction (exact in decimal)
                    let q = abs * mk_dec(r.range(1, 9), 1);
                    if q.is_zero() || q.scale() > 20 { abs } else { q }
                }
                _ => gen_qty(r, m),
            };
            (buy, qty)
        } else {
            (r.chance(1, 2), gen_qty(r, m))
        };
        let fee = gen_fee(r, price, qty);
        time = if adv && r.chance(1, 4) {
            time - r.below(3) as i64
        } else {
            time + r.below(5_000) as i64
        };
        let id = if adv && k > 0 && r.chance(1, 8) {
            fills[r.below(k) as usize].id
        } else {
            k + 1
        };
        net += if buy { qty } else { -qty };
        fills.push(F { id, inst, time, buy, price, qty, fee });
    }
    fills
}

/// Exhaustive table over the abstract domain the control flow of update_from_trade depends on:
/// prior state (none / long / short, each fresh, after an increase, after a reduction, after
/// increase+reduction) x fill side x quantity relation (less / equal / more than open) x fee
/// (0 / >0) x price (below / at / above entry).
/// persist / restore points: none in a third of the histories, after ~1 fill in 4 otherwise
fn gen_restores(r: &mut Rng, len: usize) -> Vec<bool> {
    let none = r.chance(1, 3);
    (0..len).map(|_| !none && r.chance(1, 4)).collect()
}

/// rejected-input points: none in a third of the histories, after ~1 fill in 5 otherwise
/// (applied only where a position is open)
fn gen_rejects(r: &mut Rng, len: usize) -> Vec<u64> {
    let none = r.chance(1, 3);
    (0..len).map(|_| if !none && r.chance(1, 5) { 1 + r.below(3) } else { 0 }).collect()
}

fn gen_ik(r: &mut Rng) -> Ik {
    let kind = r.below(4);
    let sizes = [mk_dec(1, 0), mk_dec(1, 3), mk_dec(1, 2), mk_dec(100, 0)];
    Ik { kind, size: if kind == 0 { Decimal::ONE } else { *r.pick(&sizes) }, settle_quote: kind == 0 || r.chance(1, 2) }
}

fn table(em: &mut Emitter) {
    let iks = [
        Ik::spot(),
        Ik { kind: 1, size: mk_dec(1, 3), settle_quote: false },
        Ik { kind: 2, size: mk_dec(100, 0), settle_quote: true },
        Ik { kind: 3, size: mk_dec(1, 2), settle_quote: false },
        Ik { kind: 1, size: mk_dec(1, 0), settle_quote: true },
    ];
    let mut case_no = 0usize;
    let d = |m: i64, s: u32| mk_dec(m, s);
    let mut prefixes: Vec<Vec<(bool, i64, i64, i64)>> = vec![vec![]]; // (buy, price, qty*10, fee*10)
    for buy in [true, false] {
        prefixes.push(vec![(buy, 100, 40, 10)]);
        prefixes.push(vec![(buy, 100, 40, 10), (buy, 120, 20, 0)]);
        prefixes.push(vec![(buy, 100, 40, 10), (!buy, 90, 15, 5)]);
        prefixes.push(vec![(buy, 100, 40, 10), (buy, 80, 20, 7), (!buy, 110, 30, 5)]);
        prefixes.push(vec![(buy, 100, 40, 10), (!buy, 105, 30, 5), (buy, 95, 10, 3)]);
    }
    for pre in &prefixes {
        let open: i64 = pre.iter().map(|(b, _, q, _)| if *b { *q } else { -*q }).sum::<i64>().abs();
        for buy in [true, false] {
            let qtys: Vec<i64> = if open == 0 { vec![25] } else { vec![open - 5, open, open + 15] };
            for q in qtys {
                for fee in [0i64, 12] {
                    for price in [85i64, 100, 130] {
                        let mut fills: Vec<F> = pre
                            .iter()
                            .enumerate()
                            .map(|(k, (b, p, q, f))| F {
                                id: k as u64 + 1,
                                inst: 0,
                                time: 1_000 * (k as i64 + 1),
                                buy: *b,
                                price: d(*p, 0),
                                qty: d(*q, 1),
                                fee: d(*f, 1),
                            })
                            .collect();
                        let k = fills.len();
                        fills.push(F {
                            id: k as u64 + 1,
                            inst: 0,
                            time: 1_000 * (k as i64 + 1),
                            buy,
                            price: d(price, 0),
                            qty: d(q, 1),
                            fee: d(fee, 1),
                        });
                        let ik = iks[case_no % iks.len()];
                        case_no += 1;
                        // persist / restore after every prefix in two cases out of three
                        let restores: Vec<bool> = fills.iter().map(|_| case_no % 3 != 0).collect();
                        // a foreign-instrument fill after every fill in half of the cases
                        let rejects: Vec<u64> =
                            fills.iter().enumerate().map(|(k, _)| if case_no % 2 == 0 { 1 + ((case_no / 2 + k) % 3) as u64 } else { 0 }).collect();
                        emit(em, "table", &fills, ik, &restores, &rejects);
                    }
                }
            }
        }
    }
}

fn main() {
    quiet_panics();
    let args = parse_args();
    let mut em = Emitter::create(&args.out);
    match args.mode.as_str() {
        "gen" => {
            let mut r = Rng::new(args.seed);
            let (n_rand, n_adv, max_len) = if args.tier == "thorough" {
                (2000, 700, 80)
            } else {
                (400, 120, 30)
            };
            table(&mut em);
            for _ in 0..n_rand {
                let fills = gen_history(&mut r, max_len, false);
                let ik = gen_ik(&mut r);
                let restores = gen_restores(&mut r, fills.len());
                let rejects = gen_rejects(&mut r, fills.len());
                emit(&mut em, "random", &fills, ik, &restores, &rejects);
            }
            for _ in 0..n_adv {
                let fills = gen_history(&mut r, max_len, true);
                let ik = gen_ik(&mut r);
                let restores = gen_restores(&mut r, fills.len());
                let rejects = gen_rejects(&mut r, fills.len());
                emit(&mut em, "adversarial", &fills, ik, &restores, &rejects);
            }
        }
        "exec" => {
            for (inp, stream) in read_inputs(args.input.as_deref().expect("--in")) {
                let fills: Vec<F> = inp["fills"].as_array().unwrap().iter().map(F::from_json).collect();
                let restores: Vec<bool> = inp["fills"].as_array().unwrap().iter().map(|f| f["restore_after"].as_bool().unwrap_or(false)).collect();
                let rejects: Vec<u64> = inp["fills"].as_array().unwrap().iter().map(|f| f["foreign_after"].as_u64().unwrap_or(0)).collect();
                emit(&mut em, stream_static(&stream), &fills, Ik::from_json(&inp["instrument"]), &restores, &rejects);
            }
        }
        m => panic!("unknown mode {m}"),
    }
    em.finish();
}
